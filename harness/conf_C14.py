"""C14 - TEXT keywords and values are returned exactly as written, or rejected.

MC    spec/mc/MC_FCSText      round trip of Encode/Decode over all small pair lists
GEN   spec/gen/Gen_C14        every string over {delim,a,b} up to L, three calling modes; each state
                              replayed into FlowCal.io.read_fcs_text_segment
TRACE spec/trace/Trace_C14    hypothesis dictionaries -> python writer -> real reader (segment level and
                              whole files with supplemental TEXT + ANALYSIS); the trace spec decodes the
                              bytes itself and judges the recorded outcome
"""
import io
import json
import os
import random
import warnings

from harness import core, tlc, fcsgen
from harness.core import run_driver

import FlowCal.io  # noqa: E402


_BUFDIR = {}


def segment_buffer(raw):
    """`buf` is documented as a file-like object: mostly an in-memory stream; every sixteenth string (by its contents) is
    handed over as a real file opened for reading, as a decompressing handle (gzip: its descriptor is that of the SMALLER
    compressed file), or as the read/write handle it was just written through (not yet flushed)"""
    import zlib
    k = zlib.crc32(raw) % 48
    if k > 2 or not raw:
        return io.BytesIO(raw), None, 0
    d = _BUFDIR.get(os.getpid())
    if d is None:
        d = _BUFDIR[os.getpid()] = tlc.scratch('c14b_')
    p = os.path.join(d, 'seg.bin')
    if k == 0:
        with open(p, 'wb') as f:
            f.write(raw)
        h = open(p, 'rb')
    elif k == 1:
        import gzip
        # (the segment sits behind 4 KB of blank padding, as a TEXT segment sits behind other segments)
        with gzip.open(p + '.gz', 'wb') as f:
            f.write(b' ' * 4096 + raw)
        return gzip.open(p + '.gz', 'rb'), None, 4096
    else:
        h = open(p, 'w+b')
        h.write(raw)
    return h, h, 0


def real_segment(raw, delim, supp, auto=False):
    """Call the real reader on bytes; project to (k, dict-as-list-of-pairs, warn)."""
    buf, owned, begin = segment_buffer(raw)
    try:
        return _real_segment(buf, raw, delim, supp, auto, begin)
    finally:
        buf.close()


def _real_segment(buf, raw, delim, supp, auto, begin=0):
    with warnings.catch_warnings(record=True) as w:
        warnings.simplefilter('always')
        try:
            text, d = FlowCal.io.read_fcs_text_segment(buf, begin, begin + len(raw) - 1,
                                                      delim=None if auto else delim, supplemental=supp)
        except Exception as e:   # any exception class counts as refusal
            return 'err', None, False, type(e).__name__
        warn = any('ill-formed TEXT segment' in str(x.message) for x in w)
    return 'ok', text, warn, None


def render(q, table):
    return ''.join(table[c] for c in q).encode(fcsgen.ENC)


RENDERINGS = None


def gen_work(st):
    """one dumped state -> list of (label or None, raw bytes, delimiter, observed) per rendering"""
    scn, out = st['scn'], st['out']
    q, mode = scn['q'], scn['mode']
    res = []
    for table in RENDERINGS:
        raw = render(q, table)
        dl = table[0]
        k, text, warn, exc = real_segment(raw, dl, mode == 'supp', auto=(mode == 'auto'))
        obs = {'k': k, 'warn': warn}
        if k == 'ok':
            inv = {v: c for c, v in table.items()}
            obs['dict'] = sorted([[inv[ch] for ch in kk], [inv[ch] for ch in vv]] for kk, vv in text.items())
        lab = None
        if not judge(out, obs):
            lab = 'C14/gen/' + ('accepted-illformed' if out['k'] == 'err' else
                                ('refused-wellformed' if obs['k'] == 'err' else 'pairs-or-warn'))
        res.append((lab, list(raw), dl, obs))
    return res


def gen_part(chk, L, renderings):
    global RENDERINGS
    import multiprocessing as mp
    RENDERINGS = renderings
    cfg = 'INIT Init\nNEXT Next\nCONSTANT L = %d\nINVARIANT ReEncodes\nINVARIANT SuppAgrees\nINVARIANT NoSilentRepair\n' % L
    res = tlc.require_ok(tlc.run_tlc('Gen_C14', cfg, dump=True), 'Gen_C14')
    chk.add_tlc(res, 'Gen_C14(L=%d)' % L)
    states = list(res.dump_states())
    with mp.get_context('fork').Pool(min(16, os.cpu_count() or 1)) as pool:
        outs = pool.map(gen_work, states, chunksize=2000)
    n = 0
    neg_done = False
    for st, per in zip(states, outs):
        scn, out = st['scn'], st['out']
        q, mode = scn['q'], scn['mode']
        for lab, raw, dl, obs in per:
            if not neg_done and out['k'] == 'ok' and any(len(d) for d in out['dicts']) and lab is None:
                bad = dict(obs)
                bad['dict'] = obs['dict'][:-1] if obs.get('dict') else None
                chk.negative_control(not judge(out, bad), 'C14 gen comparator accepts a dropped pair')
                neg_done = True
            nontrivial = (out['k'] == 'ok' and any(len(d) for d in out['dicts'])) or (out['k'] == 'err' and 0 in q)
            chk.case(('g', tuple(q), mode), nontrivial=nontrivial,
                     sample={'q': q, 'mode': mode, 'expected': out, 'observed': obs} if (n % 9973 == 17) else None)
            if lab:
                chk.violation(lab, {'q': q, 'mode': mode, 'bytes': raw, 'delim': dl}, out, obs)
            n += 1
        chk.traces += 1
    if not neg_done:
        raise tlc.MachineryError('C14: no generated case with a non-empty dictionary')


def judge(out, obs):
    if out['k'] == 'err':
        return obs['k'] == 'err'
    if obs['k'] != 'ok':
        return False
    dicts = [sorted([list(p[0]), list(p[1])] for p in d) for d in out['dicts']]
    return obs['dict'] in dicts and obs['warn'] == out['warn']


# ---------------------------------------------------------------------------- TRACE

def trace_part(chk, n_seg, n_file):
    from hypothesis import given, settings, strategies as st, HealthCheck, seed as hseed
    recs = []
    rnd = random.Random(chk.seed)
    delims = [chr(c) for c in range(33, 127)] + ['\x0c', '\x1e', '\xff', '\xa7']

    def tok(alpha, dl):
        # non-empty, does not start with the delimiter, may contain and end with it
        return st.text(alphabet=alpha, min_size=1, max_size=6).filter(lambda s: s[0] != dl)

    @st.composite
    def scenario(draw):
        dl = draw(st.sampled_from(delims))
        others = draw(st.lists(st.sampled_from([chr(c) for c in range(32, 256) if chr(c) != dl]),
                               min_size=1, max_size=4, unique=True))
        alpha = others + [dl, dl]
        npairs = draw(st.integers(0, 6))
        pairs = [(draw(tok(alpha, dl)), draw(tok(alpha, dl))) for _ in range(npairs)]
        return dl, pairs

    def to_codes(s):
        # one code per character: for text decoded as ISO-8859-1 this is the byte; anything else the reader may hand
        # back (a replacement character, a multi-byte sequence decoded as one character) keeps its own code and
        # cannot match the written bytes
        return [ord(c) for c in s]

    def proj_dict(d):
        return [[to_codes(k), to_codes(v)] for k, v in d.items()]

    seg_cases = []

    @settings(max_examples=n_seg, deadline=None, database=None, derandomize=True,
              suppress_health_check=list(HealthCheck))
    @given(scenario(), st.sampled_from(['primary', 'supp', 'suppbare']), st.sampled_from(['', 'x', ' \n']),
           st.sampled_from(['none', 'none', 'none', 'dup-delim', 'drop-last', 'extra-delim']))
    def run_seg(sc, mode, garbage, damage):
        dl, pairs = sc
        s = fcsgen.encode_text(pairs, dl, lead=(mode != 'suppbare'))
        if damage == 'dup-delim' and s:
            s = s + dl                     # TolerantEnding or ill-formed
        elif damage == 'drop-last' and len(s) > 1:
            s = s[:-1]
        elif damage == 'extra-delim' and len(s) > 2:
            i = len(s) // 2
            s = s[:i] + dl + s[i:]
        if dl in garbage:
            garbage = ''
        s = s + garbage
        raw = s.encode(fcsgen.ENC)
        supp = mode != 'primary'
        k, text, warn, exc = real_segment(raw, dl, supp)
        rec = {'op': 'segment', 'q': list(raw), 'd': ord(dl), 'supp': supp, 'k': k, 'warn': warn,
               'dict': proj_dict(text) if k == 'ok' else [], 'meta': {'damage': damage, 'npairs': len(pairs)}}
        seg_cases.append(rec)

    run_seg()
    recs += seg_cases

    # whole files: primary TEXT + supplemental TEXT + ANALYSIS, FCS 3.x
    file_cases = []
    d0 = tlc.scratch('c14f_')

    import itertools
    combos = list(itertools.product(['FCS3.0', 'FCS3.1'], [True, False], ['header', 'text'], ['ok', 'ok', 'broken'], [True, False],
                                    ['zero', 'right', 'left']))
    rnd_c = __import__('random').Random(chk.seed)
    rnd_c.shuffle(combos)
    counter = [0]

    @settings(max_examples=n_file, deadline=None, database=None, derandomize=True,
              suppress_health_check=list(HealthCheck))
    @given(scenario(), st.integers(0, 5))
    def run_file(sc, pad):
        # every combination of version x supplemental/ANALYSIS rendering x location comes round every 144 files
        version, supp_lead, analysis_in, an_state, an_lead, ostyle = combos[counter[0] % len(combos)]
        counter[0] += 1
        dl, pairs = sc
        if dl.isalnum() or dl in '$,':   # offsets / required keywords and their values are rendered with these
            dl = '|'
            pairs = [(k.replace('|', '!') or '!', v.replace('|', '!') or '!') for k, v in pairs]
        # split user pairs over primary / supplemental / analysis; one key present in both TEXTs
        pairs = [(('K%d' % i) + k, v) for i, (k, v) in enumerate(pairs)]
        pairs = [(k.replace(dl, 'x') if k[0] == dl else k, v) for k, v in pairs]
        c = pairs[0::3]             # ANALYSIS first: non-empty whenever there is a pair at all
        a = pairs[1::3]
        b = pairs[2::3]
        if a:
            b = b + [(a[0][0], 'override' + a[0][1])]
        req = fcsgen.sample_pairs(1, ['A'], [8], [256], datatype='I')
        araw = None
        if an_state == 'broken' and c:
            araw = fcsgen.encode_text(c, dl)[:-1] + 'zz' if len(c) % 2 else dl + dl + 'q' + dl
        # every seventh file keeps its supplemental TEXT after all other segments, every fourteenth of them lost it (the
        # copy stopped in the padding before it, or right where it starts): announced keywords that are not there
        last = counter[0] % 7 == 3 and bool(b)
        blob, lay = fcsgen.build(version=version, pairs=req + a, data=b'\x07', delim=dl, supp_pairs=b or None,
                                 stext_first=(counter[0] % 5 == 0 and not last), stext_last=last,
                                 empty_stext=(not b and counter[0] % 3 == 1),
                                 analysis_pairs=c or None, analysis_in=analysis_in, supp_lead=supp_lead,
                                 pad_text=pad, pad_tail=2 if last else 0, raw_analysis=araw, analysis_lead=an_lead, offset_style=ostyle)
        announced = lay['se'] - lay['sb'] + 1 if lay['sb'] else 0
        if last and counter[0] % 14 == 3:
            blob = blob[:lay['sb'] - (counter[0] // 14) % 2 * (0 if c else 1)]
        path = os.path.join(d0, 'f.fcs')
        with open(path, 'wb') as f:
            f.write(blob)
        with warnings.catch_warnings(record=True) as w:
            warnings.simplefilter('always')
            try:
                ff = FlowCal.io.FCSFile(path)
                k = 'ok'
            except Exception:
                k = 'err'
            awarn = any('ANALYSIS segment could not be parsed' in str(x.message) for x in w)
        # the same pairs through the sample object (FCSData.text, and what a slice and a pickle of it carry): exactly the
        # file's merged dictionary - no pair added, dropped or re-typed on the way
        if k == 'ok':
            sample_text_case(chk, path, ff, {'version': version, 'n': [len(a), len(b), len(c)], 'd': ord(dl)})
        tb, te = lay['text_begin'], lay['text_end']
        rec = {'op': 'merge', 'd': ord(dl), 'q': list(blob[tb:te + 1]),
               'sq': list(blob[lay['sb']:lay['se'] + 1]) if lay['sb'] else [], 'sn': announced,
               'aq': list(blob[lay['ab']:lay['ae'] + 1]) if lay['ab'] else [],
               'k': k, 'dict': proj_dict(ff.text) if k == 'ok' else [],
               'adict': proj_dict(ff.analysis) if k == 'ok' else [], 'awarn': awarn,
               'meta': {'version': version, 'n': [len(a), len(b), len(c)], 'an_state': an_state,
                        'analysis_in': analysis_in, 'analysis_lead': an_lead, 'offset_style': ostyle}}
        file_cases.append(rec)

    run_file()
    # two big files: the ANALYSIS segment lies beyond 10,000,000 bytes, so its HEADER offsets fill their 8-character fields
    for version, an_in in (('FCS2.0', 'header'), ('FCS3.0', 'header'), ('FCS3.1', 'text')):
        req = fcsgen.sample_pairs(1, ['A'], [8], [256], datatype='I')
        c = [('AK1', 'av/1'), ('AK2', 'x')]
        blob, lay = fcsgen.build(version=version, pairs=req + [('K0', 'v0')], data=b'\x07', delim='/', analysis_pairs=c,
                                 analysis_in=an_in, pad_tail=10000000 + (345678 if version == 'FCS3.0' else 0))
        path = os.path.join(d0, 'big.fcs')
        with open(path, 'wb') as f:
            f.write(blob)
        with warnings.catch_warnings(record=True) as w:
            warnings.simplefilter('always')
            try:
                ff = FlowCal.io.FCSFile(path)
                k = 'ok'
            except Exception:
                k = 'err'
            awarn = any('ANALYSIS segment could not be parsed' in str(x.message) for x in w)
        os.remove(path)
        tb, te = lay['text_begin'], lay['text_end']
        file_cases.append({'op': 'merge', 'd': ord('/'), 'q': list(blob[tb:te + 1]), 'sq': [], 'sn': 0,
                           'aq': list(blob[lay['ab']:lay['ae'] + 1]), 'k': k, 'dict': proj_dict(ff.text) if k == 'ok' else [],
                           'adict': proj_dict(ff.analysis) if k == 'ok' else [], 'awarn': awarn,
                           'meta': {'version': version, 'analysis_in': an_in, 'analysis_begin': lay['ab']}})
    recs += file_cases

    # negative control: corrupt one logged value of one well-formed record
    ctl = None
    for r in recs:
        if r['op'] == 'segment' and r['k'] == 'ok' and r['dict']:
            ctl = json.loads(json.dumps(r))
            ctl['dict'][0][1] = ctl['dict'][0][1] + [65]
            break
    if ctl is None:
        raise tlc.MachineryError('C14 trace: no record for the negative control')
    recs.append(ctl)
    wd = tlc.scratch('c14t_')
    tf = os.path.join(wd, 'trace.ndjson')
    with open(tf, 'w') as f:
        for r in recs:
            rr = {k: v for k, v in r.items() if k != 'meta'}
            f.write(json.dumps(rr) + '\n')
    cfg = 'SPECIFICATION Spec\nPOSTCONDITION AllConsumed\n'
    res = tlc.run_tlc('Trace_C14', cfg, workers=1, env={'TRACE_FILE': tf})
    if not res.ok:
        raise tlc.MachineryError('Trace_C14 failed: ' + (res.error_text or res.stdout[-2000:]))
    chk.add_tlc(res, 'Trace_C14')
    import re
    rejects = {int(m.group(1)): m.group(2) for m in re.finditer(r'<<"REJECT", (\d+), "([^"]+)">>', res.stdout)}
    chk.negative_control(len(recs) in rejects, 'Trace_C14 accepted a corrupted dictionary value')
    rejects.pop(len(recs), None)
    for i, r in enumerate(recs[:-1], 1):
        nontriv = bool(r['dict']) or r['k'] == 'err'
        chk.case(('t', core.stable_hash(r)), nontrivial=nontriv,
                 sample=r if i in (3, len(seg_cases) + 2) else None)
        chk.traces += 1
        if i in rejects:
            chk.violation('C14/trace/' + rejects[i], r, {'verdict': rejects[i]}, {'k': r['k'], 'dict': r['dict']},
                          direction='trace')


def sample_text_case(chk, path, ff, meta):
    import pickle
    want = dict(ff.text)
    try:
        with warnings.catch_warnings():
            warnings.simplefilter('ignore')
            d = FlowCal.io.FCSData(path)
            views = [('FCSData.text', d.text), ('slice.text', d[:, 0].text), ('pickle.text', pickle.loads(pickle.dumps(d)).text),
                     ('file.text-after-sample-load', dict(ff.text))]
    except Exception:  # noqa   (whether the one-event sample itself loads is C01's / C16's business)
        chk.extra['sample_text_not_loadable'] = chk.extra.get('sample_text_not_loadable', 0) + 1
        return
    chk.extra['sample_text_cases'] = chk.extra.get('sample_text_cases', 0) + 1
    for name, got in views:
        got = dict(got)
        if got != want or any(not isinstance(v, str) for v in got.values()):
            extra_keys = sorted(set(got) - set(want))
            missing = sorted(set(want) - set(got))
            changed = sorted(x for x in set(want) & set(got) if want[x] != got[x])
            chk.violation('C14/sample-text/' + name + ('/added' if extra_keys else '/lost' if missing else '/changed'), meta,
                          {'pairs': len(want)}, {'added': extra_keys[:4], 'lost': missing[:4], 'changed': changed[:4]})
            return


def mc_part(chk, toklen, npairs, nsym):
    cfg = ('INIT Init\nNEXT Next\nCONSTANTS TokLen = %d\nNPairs = %d\nNSym = %d\n'
           'INVARIANT RoundTripPrimary\nINVARIANT RoundTripSuppLead\nINVARIANT RoundTripSuppBare\n'
           'INVARIANT TrailingGarbageIgnored\n') % (toklen, npairs, nsym)
    res = tlc.run_tlc('MC_FCSText', cfg)
    if not res.ok:
        raise tlc.MachineryError('MC_FCSText: spec-internal theorem failed (%s)\n%s' %
                                 (res.violated, res.stdout[-1500:]))
    chk.add_tlc(res, 'MC_FCSText')


def main(chk, replay=None):
    chk.rule = ('GEN: every string over {delimiter,a,b} of length <= L x 3 calling modes x delimiter renderings, '
                'non-trivial = decodes to a non-empty dictionary or is refused although it contains a delimiter; '
                'TRACE: hypothesis dictionaries (0..6 pairs, tokens containing/ending with delimiters, damaged '
                'endings) at segment level and in whole FCS3.x files with supplemental TEXT and ANALYSIS')
    chk.assumptions = ['TLC and the TLA+ value parser', 'latin-1 rendering of symbol codes',
                       'python writer fcsgen.encode_text (its output is re-decoded by the spec in TRACE)']
    if replay:
        sc = replay['scenario']
        if replay['direction'] == 'gen':
            raw = bytes(sc['bytes'])
            print('replay:', raw, real_segment(raw, sc['delim'], sc['mode'] == 'supp', sc['mode'] == 'auto'),
                  'expected', replay['expected'])
        else:
            print('replay (trace record):', json.dumps(sc)[:2000])
        return
    tabs = [{0: '/', 1: 'a', 2: 'b'}]
    if chk.quick:
        mc_part(chk, 3, 2, 2)
        gen_part(chk, 10, tabs)
        trace_part(chk, 1500, 300)
    else:
        mc_part(chk, 3, 2, 3)
        gen_part(chk, 11, tabs + [{0: '\x0c', 1: '/', 2: '\xff'}])
        trace_part(chk, 20000, 1500)
    chk.exhaustive = True


if __name__ == '__main__':
    run_driver('C14', main)
