"""How a sample file is handed to the library.  `infile` is documented as "str or file-like": the drivers rotate
between the path, an open binary handle, and a file-like object that is not an io.IOBase subclass (as
tempfile.NamedTemporaryFile objects are).  Handles stay open (the caller owns them) and are closed here, late."""
import atexit
import io
import zlib

_open = []
FORMS = ('path', 'handle', 'wrapper', 'linkpath')


@atexit.register
def _close_all():
    while _open:
        try:
            _open.pop().close()
        except Exception:  # noqa
            pass


class FileLike(object):
    """a thin wrapper that hands every attribute on to the real file (what tempfile.NamedTemporaryFile returns):
    file-like, and not an io.IOBase subclass"""

    def __init__(self, f):
        self.file = f

    def __getattr__(self, name):
        return getattr(self.__dict__['file'], name)


def arg(path, k=None):
    """the constructor argument for a load (k-th form; by default chosen by the file's contents, so that a replay
    hands the file over in the same way)"""
    if k is None:
        with open(path, 'rb') as f:
            k = zlib.crc32(f.read(4096))
    form = FORMS[k % len(FORMS)]
    if form == 'path':
        return path
    if form == 'linkpath':
        return via_link(path)
    h = open(path, 'rb')
    if form == 'wrapper':
        h = FileLike(h)
    _open.append(h)
    while len(_open) > 40:
        _open.pop(0).close()
    return h


_links = {}


def via_link(path):
    """the same file named through a symbolic link to a folder and `..`:  <elsewhere>/current/../<name>, where
    `current` links to a sub-folder of the file's folder.  The operating system resolves the link first (so this names
    the file); collapsing `current/..` as text would name <elsewhere>/<name> instead."""
    import os
    import tempfile
    d = os.path.dirname(os.path.abspath(path))
    if d not in _links:
        real_sub = os.path.join(d, '_sub')
        os.makedirs(real_sub, exist_ok=True)
        elsewhere = tempfile.mkdtemp(prefix='lnk_', dir=d)
        os.symlink(real_sub, os.path.join(elsewhere, 'current'))
        _links[d] = os.path.join(elsewhere, 'current', '..')
    return os.path.join(_links[d], os.path.basename(path))


def form_of(x):
    return 'path' if isinstance(x, str) else 'handle' if isinstance(x, io.IOBase) else 'wrapper'
