"""How a sample file is handed to the library.  `infile` is documented as "str or file-like": the drivers rotate
between the path, an open binary handle, and a file-like object that is not an io.IOBase subclass (as
tempfile.NamedTemporaryFile objects are).  Handles stay open (the caller owns them) and are closed here, late."""
import atexit
import io
import zlib

_open = []
FORMS = ('path', 'handle', 'wrapper')


@atexit.register
def _close_all():
    while _open:
        try:
            _open.pop().close()
        except Exception:  # noqa
            pass


class FileLike(object):
    """a thin wrapper that hands every attribute on to the real file (what tempfile.NamedTemporaryFile returns):
    file-like, and not an io.IOBase subclass"""

    def __init__(self, f):
        self.file = f

    def __getattr__(self, name):
        return getattr(self.__dict__['file'], name)


def arg(path, k=None):
    """the constructor argument for a load (k-th form; by default chosen by the file's contents, so that a replay
    hands the file over in the same way)"""
    if k is None:
        with open(path, 'rb') as f:
            k = zlib.crc32(f.read(4096))
    form = FORMS[k % 3]
    if form == 'path':
        return path
    h = open(path, 'rb')
    if form == 'wrapper':
        h = FileLike(h)
    _open.append(h)
    while len(_open) > 40:
        _open.pop(0).close()
    return h


def form_of(x):
    return 'path' if isinstance(x, str) else 'handle' if isinstance(x, io.IOBase) else 'wrapper'
