"""C02 - bead calibration end to end yields the true RFI-to-MEF conversion.

MC    spec/Calibration: step machine Cluster -> Order -> Select -> Fit -> Assemble over all assignments of
      unknown / saturated flags; TLC checks OwnValue (a population keeps its own manufacturer value whatever else
      is excluded), EqualLengths, ExcludedStayOut, CurvePerChannel, RefusedOnlyWhenTooFew.
TRACE spec/trace/Trace_C02: synthetic bead files (6..8 populations, ratio 2.5..4, CV 2..5 %, 200..800 events,
      random order, slope/intercept/autofluorescence per channel, 1..3 channels, optional blank, optional saturated
      dimmest/brightest, unknown values anywhere, clustering-channel choice, median/mean, seeds) run through the real
      to_rfi + get_transform_fxn(full_output=True); the record holds discrete observations and the logged numeric
      observations; the trace spec judges them against the scenario.
Logged observations (numeric, measured by the harness): selection.rfi = statistic of the true populations, fit =
fitting_fxn on those, conversion within 10 % of exp(b) x^m over the calibrated span.
"""
import json
import math
import multiprocessing as mp
import os
import re
import warnings

import numpy as np

from harness import core, tlc, fcsgen
from harness.core import run_driver


def logicle_display(x, T, M=None, W=0.0):
    """display coordinate of data values under the logicle equation the library documents, computed independently of it:
    x = T 10^-(M-W) (10^(y-W) - p^2 10^(-(y-W)/p) + p^2 - 1), p from W = 2p log10(p)/(p+1); inverted by bisection on
    [0, M] (values beyond the ends are clamped)"""
    if M is None:
        M = max(4.5, 4.5 / np.log10(262144) * np.log10(T))
    if W == 0:
        pp = 1.0
    else:
        lo, hi = 1.0, 1e6
        for _ in range(200):
            mid = (lo + hi) / 2
            if 2 * mid * np.log10(mid) / (mid + 1) < W:
                lo = mid
            else:
                hi = mid
        pp = (lo + hi) / 2

    def S(y):
        y = np.asarray(y, dtype=float)
        return T * 10 ** (-(M - W)) * (10 ** (y - W) - pp ** 2 * 10 ** (-(y - W) / pp) + pp ** 2 - 1)
    x = np.asarray(x, dtype=float)
    lo = np.zeros_like(x)
    hi = np.full_like(x, float(M))
    for _ in range(70):
        mid = (lo + hi) / 2
        below = S(mid) < x
        lo = np.where(below, mid, lo)
        hi = np.where(below, hi, mid)
    return (lo + hi) / 2


def scenario(seed):
    rnd = np.random.RandomState(seed)
    K = int(rnd.randint(6, 9))
    nch = int(rnd.randint(1, 4))
    blank = bool(rnd.randint(2))
    ratios = rnd.uniform(2.5, 4.0, size=K)
    chans = []
    for c in range(nch):
        m = rnd.uniform(0.9, 1.2)
        b = rnd.uniform(1.0, 5.0)
        # decades of the channel's log amplifier: in every other scenario the channels (and so their ranges in RFI, 10^4 /
        # 10^5 / 10^4.5) differ inside one calibration and from one calibration of a process to the next; the ladder
        # fills the upper part of each channel's own range
        dec = [4.0, 5.0, 4.5][c] if seed % 2 else 4.0
        top_rfi = rnd.uniform(2500, 4500) * 10 ** (dec - 4.0)
        # brightness ladder in RFI, then MEF values from the bead model
        rfi = [top_rfi]
        for k in range(K - 1):
            rfi.append(rfi[-1] / ratios[k])
        rfi = rfi[::-1]
        if blank:
            rfi[0] = rfi[1] / 5.0
        auto_mef = 0.0
        mef_total = [math.exp(b) * r ** m for r in rfi]
        if blank:
            auto_mef = mef_total[0]                     # the blank bead shows pure autofluorescence
        else:
            auto_mef = rnd.uniform(0.0, 0.4) * mef_total[0]
        mef = [max(0.0, t - auto_mef) for t in mef_total]
        mef = [float(int(round(v))) for v in mef]
        if blank:
            mef[0] = 0.0
        sat_hi = bool(rnd.randint(4) == 0)
        sat_lo = bool(rnd.randint(4) == 0) and not blank
        unknown = [bool(rnd.randint(5) == 0) for _ in range(K)]
        chans.append(dict(decades=dec, m=m, b=b, auto=auto_mef, rfi=rfi, mef=mef, sat_hi=sat_hi, sat_lo=sat_lo, unknown=unknown))
    cv = rnd.uniform(0.02, 0.05)
    if rnd.randint(2):
        base = int(rnd.randint(220, 700))          # near-equal sizes: the clustering's equal-chunk seeding is adequate
        sizes = [int(base * rnd.uniform(0.93, 1.07)) for _ in range(K)]
    else:
        sizes = [int(rnd.randint(200, 801)) for _ in range(K)]
    if seed % 4 == 1:
        # large, near-equal populations (the upper end of the allowed sizes), written population after population
        # ("whatever the order of events in the file": see the event order below)
        base = int(rnd.randint(700, 790))
        sizes = [int(base * rnd.uniform(0.97, 1.03)) for _ in range(K)]
    if seed % 5 == 3:
        # the float-file / log-clustering scenarios: the dimmest population of the first channel piles up at the lower limit
        chans[0]['sat_lo'] = True
    cluster = rnd.choice(['all', 'first', 'two']) if nch >= 2 else 'all'
    stat = rnd.choice(['median', 'mean'])
    return dict(seed=int(seed), K=K, nch=nch, blank=blank, chans=chans, cv=float(cv), sizes=sizes, cluster=str(cluster),
                stat=str(stat), npseed=int(rnd.randint(0, 10 ** 6)))


def run_scenario(sc):
    import FlowCal.io
    import FlowCal.transform
    import FlowCal.mef
    import FlowCal.stats
    import FlowCal.plot
    rnd = np.random.RandomState(sc['seed'] + 1)
    K, nch = sc['K'], sc['nch']
    r = 1024
    # decades of the log amplifier per channel: in every other scenario the channels (and so their ranges in RFI,
    # 10^4 / 10^5 / 10^4.5) differ inside one calibration and from one calibration of this process to the next
    decades = [ch['decades'] for ch in sc['chans']]
    floatfile = sc['seed'] % 5 == 3          # these scenarios also cluster on the log scale (below)
    cols = []
    for c, ch in enumerate(sc['chans']):
        a0 = decades[c]
        col = []
        for p in range(K):
            # true total MEF-equivalent brightness from the rounded manufacturer value, back to RFI
            tot = ch['mef'][p] + ch['auto']
            mu = (tot / math.exp(ch['b'])) ** (1.0 / ch['m'])
            v = mu * (1.0 + sc['cv'] * rnd.standard_normal(sc['sizes'][p]))
            v = np.clip(v, 1e-3, None)
            if floatfile:
                # floating-point file, linear "amplifier": the readings ARE the fluorescence values; a population piled
                # up at the lower limit sits at exactly 0
                top = 10.0 ** a0 - 1.0
                x = v.astype(np.float32).astype(np.float64)
                if ch['sat_hi'] and p == K - 1:
                    x[:] = top
                if ch['sat_lo'] and p == 0:
                    x[:] = 0.0
                col.append(np.clip(x, 0.0, top))
                continue
            x = np.round(r / a0 * np.log10(v)).astype(int)
            if ch['sat_hi'] and p == K - 1:
                x[:] = 1023
            if ch['sat_lo'] and p == 0:
                x[:] = 0
            col.append(np.clip(x, 0, 1023))
        cols.append(col)
    pop = np.concatenate([np.full(sc['sizes'][p], p) for p in range(K)])
    data = np.stack([np.concatenate(cols[c]) for c in range(nch)] + [np.full(len(pop), 500)], axis=1)
    perm = rnd.permutation(len(pop))
    if sc['seed'] % 4 == 1:
        # grouped: dimmest population first (or brightest first) instead of a random order
        perm = np.arange(len(pop)) if sc['seed'] % 8 == 1 else np.arange(len(pop))[::-1]
    data, pop = data[perm], pop[perm]
    names = ['FL%d' % (c + 1) for c in range(nch)] + ['FSC']
    d = os.environ.get('C02_DIR')
    path = os.path.join(d, 'beads_%d.fcs' % sc['seed'])
    if floatfile:
        fcsgen.write_sample(path, [[float(v) for v in row] for row in data], names, [int(10 ** decades[c]) for c in range(nch)] + [1024],
                            datatype='F', pne=['0,0'] * (nch + 1))
    else:
        fcsgen.write_sample(path, data.tolist(), names, [1024] * (nch + 1), bits=16,
                            pne=['%s,1' % ('%g' % decades[c]) for c in range(nch)] + ['0,0'])
    mef_values = [[(np.nan if ch['unknown'][p] else ch['mef'][p]) for p in range(K)] for ch in sc['chans']]
    mef_channels = names[:nch]
    if sc['cluster'] == 'first':
        cl = mef_channels[:1]
    elif sc['cluster'] == 'two':
        cl = mef_channels[:2]
    else:
        cl = None
    statf = FlowCal.stats.median if sc['stat'] == 'median' else FlowCal.stats.mean
    rec = {'K': K, 'nch': nch, 'sizes': [int(v) for v in sc['sizes']], 'unknown': [list(map(bool, ch['unknown'])) for ch in sc['chans']],
           'sat': [[bool((ch['sat_lo'] and p == 0) or (ch['sat_hi'] and p == K - 1)) for p in range(K)] for ch in sc['chans']]}
    # margins: non-saturated populations must be clearly inside the documented selection thresholds
    with warnings.catch_warnings():
        warnings.simplefilter('ignore')
        s = FlowCal.transform.to_rfi(FlowCal.io.FCSData(path), mef_channels)

        # cluster labels are arbitrary names (Calibration.tla: Cluster picks any renaming): in half of the scenarios the
        # library's own clustering function is wrapped so that its labels come back renamed by a fixed permutation
        relabel = None
        if sc['seed'] % 2 == 1:
            relabel = np.random.RandomState(sc['seed']).permutation(K)
            if sc['seed'] % 4 == 3:
                # ... or by names that are not 0..K-1 at all (cluster numbers starting at 1, ids with gaps: what
                # scipy's fcluster or a DBSCAN-style function hands out)
                relabel = relabel * (7 if sc['seed'] % 8 == 7 else 1) + (3 if sc['seed'] % 8 == 7 else 1)

        # one scenario in five clusters on the log scale (a documented option of clustering_gmm)
        ckw = {'scale': 'log'} if sc['seed'] % 5 == 3 else {}

        def clustering(data, n_clusters, **kw):
            kw = dict(kw, **ckw)
            lab = np.asarray(FlowCal.mef.clustering_gmm(data, n_clusters, **kw))
            return lab if relabel is None else relabel[lab]

        def call(sample, seed):
            np.random.seed(seed)
            # the caller's own lists: after the calibration they are reused for something else (reordered in place);
            # the calibration that was returned must not depend on them any more
            mc, mv = list(mef_channels), [list(v) for v in mef_values]
            # documented options that change no number: the diagnostic figures drawn (one scenario in six), and - when no
            # population sits at a detector limit, so that there is nothing for it to discard - no selection function
            opts = {}
            if sc['seed'] % 6 == 2:
                opts['plot'] = True
            if sc['seed'] % 3 == 1 and not any(any(r_) for r_ in rec['sat']):
                opts['selection_fxn'] = None
            try:
                res = FlowCal.mef.get_transform_fxn(sample, mv, mc, clustering_fxn=clustering,
                                                    clustering_channels=cl, statistic_fxn=statf, full_output=True, **opts)
            finally:
                if opts.get('plot'):
                    import matplotlib.pyplot as plt
                    plt.close('all')
            mc.reverse()
            mv.reverse()
            for v in mv:
                v.reverse()
            return res
        margin_ok = True
        for c in range(nch):
            rg = s.range(mef_channels[c])
            disp = lambda vals: logicle_display(vals, T=float(rg[1]))     # noqa  (beads are positive: W = 0)
            lo, hi = disp(np.array(rg, dtype=float))
            tl, th = lo + 0.015 * (hi - lo), lo + 0.985 * (hi - lo)
            for p in range(K):
                if rec['sat'][c][p]:
                    continue
                v = disp(np.asarray(s[pop == p][:, mef_channels[c]].view(np.ndarray), dtype=float))
                sd = max(float(np.std(v)), 0.005)
                if not (np.mean(v) - 4 * sd > tl and np.mean(v) + 4 * sd < th):
                    margin_ok = False
        rec['margin_ok'] = margin_ok
        try:
            out = call(s, sc['npseed'])
        except Exception as e:  # noqa
            rec.update({'k': 'err', 'exc': type(e).__name__ + ': ' + str(e)[:80]})
            return rec
        # the same calibration again, and once more on the events in another order: a refusal here is an outcome to be
        # judged like the first one (Trace_C02: `perm_k`), not a failure of the harness
        rec['perm_k'] = 'ok'
        p2 = rnd.permutation(len(pop))
        try:
            out_b = call(s, sc['npseed'])
            out_p = call(s[p2], sc['npseed'] + 1)
        except Exception as e:  # noqa
            rec['perm_k'] = 'err'
            rec['exc'] = 'second/permuted call: ' + type(e).__name__ + ': ' + str(e)[:80]
            out_b = out_p = out
    labels = np.asarray(out.clustering['labels'])
    rec['k'] = 'ok'
    rec['nlabels'] = int(len(labels))
    rec['nevents'] = int(len(pop))
    uniq = sorted(set(labels.tolist()))
    table = [[int(np.sum((labels == a) & (pop == p))) for p in range(K)] for a in uniq]
    while len(table) < K:
        table.append([0] * K)
    rec['table'] = table[:max(K, len(table))]
    rec['statorder'] = []
    rec['lenrfi'], rec['lenmef'], rec['selected'] = [], [], []
    rfi_true_ok = True
    fit_ok = True
    err_pm = 0
    for c in range(nch):
        vals = np.asarray(out.statistic['values'][c], dtype=float)
        rec['statorder'].append([int(x) + 1 for x in np.argsort(np.argsort(vals))] if len(vals) == K else [0] * len(vals))
        srfi = np.asarray(out.selection['rfi'][c], dtype=float)
        smef = np.asarray(out.selection['mef'][c], dtype=float)
        rec['lenrfi'].append(int(len(srfi)))
        rec['lenmef'].append(int(len(smef)))
        ch = sc['chans'][c]
        # manufacturer values are distinct: recover WHICH populations' values were kept
        sel = [bool(any(v == ch['mef'][p] for v in smef)) and not ch['unknown'][p] for p in range(K)]
        rec['selected'].append(sel)
        true_stats = np.array([float(statf(s[pop == p], mef_channels[c])) for p in range(K)])
        exp_sel = [not rec['sat'][c][p] and not ch['unknown'][p] for p in range(K)]
        if len(srfi) == sum(exp_sel):
            if srfi.tolist() != true_stats[np.array(exp_sel)].tolist():
                rfi_true_ok = False
            ref = FlowCal.mef.fit_beads_autofluorescence(true_stats[np.array(exp_sel)], np.array(ch['mef'])[np.array(exp_sel)])
            if not np.allclose(np.asarray(out.fitting['beads_params'][c]), ref[2], rtol=1e-9, atol=1e-12):
                fit_ok = False
            xs = np.exp(np.linspace(np.log(srfi.min()), np.log(srfi.max()), 60))
            probe = s[:60].copy()
            probe[:, c] = xs
            y = np.asarray(out.transform_fxn(probe, mef_channels[c]).view(np.ndarray))[:, c]
            truth = np.exp(ch['b']) * xs ** ch['m']
            e = float(np.max(np.abs(y - truth) / truth)) if np.all(np.isfinite(y)) else float('inf')
            # the calibration belongs to the channel NAME: the same events with the columns stored in the opposite
            # order (a sample laid out differently from the beads file) convert to the same values
            try:
                probe_r = probe[:, list(probe.channels)[::-1]]
                y_r = np.asarray(out.transform_fxn(probe_r, mef_channels[c]).view(np.ndarray))[:, len(probe.channels) - 1 - c]
                if y_r.tobytes() != y.tobytes():
                    e = float('inf')
            except Exception:  # noqa
                e = float('inf')
            err_pm = max(err_pm, int(math.ceil(1000 * e)) if e < 1e3 else 10 ** 6)
        else:
            rfi_true_ok = False
    rec['rfi_is_true_median'] = bool(rfi_true_ok)
    rec['fit_equals_reference'] = bool(fit_ok)
    rec['err_permille'] = int(err_pm)
    rec['reproducible'] = bool(np.array_equal(np.asarray(out_b.clustering['labels']), labels) and
                               all(np.array_equal(a, b) for a, b in zip(out_b.selection['rfi'], out.selection['rfi'])))
    rec['perm_same_selection'] = bool(all(np.array_equal(a, b) for a, b in zip(out_p.selection['mef'], out.selection['mef'])) and
                                      all(np.allclose(a, b, rtol=1e-12) for a, b in zip(out_p.statistic['values'], out.statistic['values'])))
    return rec


def gen_part(chk):
    """Select and Fit preconditions, exhaustively (spec/Selection via Gen_C02)"""
    import FlowCal.mef
    cfg = 'SPECIFICATION Spec\nINVARIANT ConstantInsideSelected\nINVARIANT OutsideNeverSelected\n'
    res = tlc.require_ok(tlc.run_tlc('Gen_C02', cfg, dump=True), 'Gen_C02')
    chk.add_tlc(res, 'Gen_C02')
    neg = False
    for st in res.dump_states():
        if st['stage'] != 100:
            continue
        p1, p2, low, high = st['scn']
        exp = st['out']
        pops = [np.array(p1, dtype=float), np.array(p2, dtype=float)]
        before = [p.copy() for p in pops]
        try:
            with warnings.catch_warnings():
                warnings.simplefilter('ignore')
                m = FlowCal.mef.selection_std(pops, low=low, high=high, scale='linear')
            obs = [bool(x) for x in m]
        except Exception as e:  # noqa
            obs = 'raises:' + type(e).__name__
        lab = None
        if isinstance(obs, str):
            lab = obs
        elif len(obs) != 2:
            lab = 'length'
        else:
            for i in range(2):
                if exp[i] != 'tie' and obs[i] != (exp[i] == 'yes'):
                    lab = 'selection'
        if any(not np.array_equal(a, b) for a, b in zip(before, pops)):
            lab = 'populations-changed'
        if not neg and exp[0] == 'yes' and lab is None:
            chk.negative_control(obs[0] is True, 'C02 selection comparator')
            neg = True
        chk.case(('sel', json.dumps(st['scn'])), nontrivial=exp[0] != exp[1])
        chk.traces += 1
        if lab:
            chk.violation('C02/selection_std/' + lab, {'populations': [p1, p2], 'low': low, 'high': high}, exp, obs)
    # fit preconditions (FitRefuses)
    for nr, nm in ((2, 2), (1, 1), (3, 4), (4, 3), (0, 0), (3, 3), (5, 5)):
        rfi = np.array([10., 50., 300., 2000., 9000.][:nr])
        mefv = np.array([800., 4000., 30000., 150000., 700000.][:nm])
        try:
            FlowCal.mef.fit_beads_autofluorescence(rfi, mefv)
            ok = True
        except ValueError:
            ok = False
        except Exception:  # noqa
            ok = None
        refuses = nr != nm or nr <= 2
        chk.case(('fit', nr, nm), nontrivial=True)
        chk.traces += 1
        if ok is None or ok == refuses:
            chk.violation('C02/fit-precondition', {'n_rfi': nr, 'n_mef': nm}, 'refused' if refuses else 'fitted', ok)


def main(chk, replay=None):
    chk.rule = ('TRACE: synthetic bead scenarios drawn per seed (K, channels, laws, blank, saturation, unknowns, clustering '
                'channels, statistic); scenarios whose non-saturated populations are not 4 SD inside the selection thresholds '
                'are discarded; non-trivial = scenarios with an unknown or saturated population or more than one channel')
    chk.assumptions = ['TLC, value parser', 'numeric observations (true medians, reference fit, 10 % accuracy) are measured by the '
                       'harness and only required by the trace spec', 'margins keep scenarios off the documented near-limit rule']
    if replay:
        print(json.dumps(replay, indent=1, default=core.jdefault)[:3000])
        return
    KK = 4 if chk.quick else 5
    cfg = ('SPECIFICATION Spec\nCONSTANTS K = %d\nNCh = 2\n' % KK + 'INVARIANT OwnValue\nINVARIANT EqualLengths\nINVARIANT ExcludedStayOut\n'
           'INVARIANT CurvePerChannel\nINVARIANT RefusedOnlyWhenTooFew\n')
    res = tlc.run_tlc('Calibration', cfg)
    if not res.ok:
        raise tlc.MachineryError('Calibration: %s\n%s' % (res.violated, res.stdout[-1500:]))
    chk.add_tlc(res, 'Calibration[K=%d,NCh=2]' % KK)
    gen_part(chk)
    n = 256 if chk.quick else 4000
    d = tlc.scratch('c02_')
    os.environ['C02_DIR'] = d
    scs = [scenario(chk.seed * 100000 + i) for i in range(n)]
    with mp.get_context('fork').Pool(min(16, os.cpu_count() or 1)) as pool:
        recs = pool.map(run_scenario, scs, chunksize=1)
    keep = [(s, r) for s, r in zip(scs, recs) if r.get('margin_ok', True)]
    chk.extra['scenarios_discarded_by_margin'] = len(recs) - len(keep)
    if len(keep) < n // 4:
        raise tlc.MachineryError('C02: too many scenarios discarded by the margin rule (%d of %d)' % (len(recs) - len(keep), n))
    recs2 = []
    for s, r in keep:
        rr = {k: v for k, v in r.items() if k not in ('exc', 'margin_ok')}
        if rr['k'] == 'err':
            rr.update({'sizes': rr.get('sizes', [1]), 'perm_k': 'ok', 'nlabels': 0, 'nevents': 0, 'table': [[0]], 'statorder': [[0]], 'lenrfi': [0], 'lenmef': [0], 'selected': [[False]],
                       'rfi_is_true_median': False, 'fit_equals_reference': False, 'err_permille': 0, 'reproducible': False,
                       'perm_same_selection': False})
        recs2.append(rr)
    ctl = None
    for rr in recs2:
        if rr['k'] == 'ok':
            ctl = json.loads(json.dumps(rr))
            ctl['selected'][0][1] = not ctl['selected'][0][1]
            break
    if ctl is None:
        raise tlc.MachineryError('C02: no successful calibration at all')
    recs2.append(ctl)
    tf = os.path.join(d, 'trace.ndjson')
    with open(tf, 'w') as f:
        for rr in recs2:
            f.write(json.dumps(rr) + '\n')
    res = tlc.run_tlc('Trace_C02', 'SPECIFICATION Spec\nPOSTCONDITION AllConsumed\n', workers=1, env={'TRACE_FILE': tf})
    if not res.ok:
        raise tlc.MachineryError('Trace_C02 failed: ' + (res.error_text or res.stdout[-2000:]))
    chk.add_tlc(res, 'Trace_C02')
    rejects = {int(m.group(1)): m.group(2) for m in re.finditer(r'<<"REJECT", (\d+), "([^"]+)">>', res.stdout)}
    chk.negative_control(len(recs2) in rejects, 'Trace_C02 accepted a flipped selection')
    rejects.pop(len(recs2), None)
    worst = 0
    for i, ((s, r), rr) in enumerate(zip(keep, recs2[:-1]), 1):
        meta = {k: s[k] for k in ('seed', 'K', 'nch', 'blank', 'cluster', 'stat')}
        meta['unknown'] = r['unknown']
        meta['sat'] = r['sat']
        nontriv = s['nch'] > 1 or any(any(u) for u in r['unknown']) or any(any(u) for u in r['sat'])
        chk.case(('s', s['seed']), nontrivial=nontriv,
                 sample={'scenario': meta, 'k': r['k'], 'selected': r.get('selected'), 'err_permille': r.get('err_permille')} if i <= 2 else None)
        chk.traces += 1
        if i not in rejects:
            worst = max(worst, r.get('err_permille', 0))
        if i in rejects:
            chk.violation('C02/%s' % rejects[i].replace('C02.', ''), meta, {'verdict': rejects[i]},
                          {k: r.get(k) for k in ('k', 'exc', 'selected', 'lenrfi', 'lenmef', 'table', 'err_permille', 'reproducible')},
                          direction='trace')
    chk.logged['max_conversion_error_permille'] = worst


if __name__ == '__main__':
    run_driver('C02', main)
