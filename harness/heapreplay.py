"""Replay of Heap.tla histories on real FCSData objects and projection of the real store to the
vocabulary of the specification (sharing graph by first appearance, mutation counts per container)."""
import copy
import os
import pickle
import warnings

import numpy as np

from harness import fcsgen, tlc
import FlowCal.io
import FlowCal.transform
import FlowCal.gate
import FlowCal.stats

EVENTS = [[50, 60, 70], [0, 0, 0], [1023, 255, 999], [10, 20, 30], [500, 100, 900], [77, 88, 99]]
R = [1024, 256, 1000]


class Store(object):
    def __init__(self, float_file=False, from_handle=False, minimal=False, time_channel=False):
        self.from_handle = from_handle
        # time_channel: the first channel is the time channel - the acquisition time then FOLLOWS THE EVENTS (a write to the
        # first event moves it), like every other answer that is derived from the buffer
        names = ['Time' if time_channel else 'c1', 'c2', 'c3']
        self.handles = []
        d = tlc.scratch('heap_')
        self.path = os.path.join(d, 'h.fcs')
        extra = [('$BTIM', '10:00:00'), ('$ETIM', '10:05:00'), ('$DATE', '01-Jan-2020'), ('$TIMESTEP', '0.01'),
                 ('MYKEY', 'my/value')]
        if minimal:
            # only the required keywords: every optional attribute (time step, start / end time, voltages, gains, labels) is absent
            fcsgen.write_sample(self.path, EVENTS, names, R, bits=16, pne=['0,0', '4,1', '2,0.5'])
        elif float_file:
            fcsgen.write_sample(self.path, [[float(v) for v in r] for r in EVENTS], names, R, datatype='F',
                                pne=['0,0', '4,1', '2,0.5'], png=['2', None, None], pnv=['400', '500', '600'],
                                pns=['A', None, 'C'], extra=extra, analysis_pairs=[('AK', 'av')])
        else:
            fcsgen.write_sample(self.path, EVENTS, names, R, bits=16, pne=['0,0', '4,1', '2,0.5'],
                                png=['2', None, None], pnv=['400', '500', '600'], pns=['A', None, 'C'], extra=extra,
                                analysis_pairs=[('AK', 'av')])

    def load(self):
        with warnings.catch_warnings():
            warnings.simplefilter('ignore')
            if self.from_handle:
                # the documented "file-like" form of the constructor argument
                h = open(self.path, 'rb')
                self.handles.append(h)
                if len(self.handles) > 50:
                    self.handles.pop(0).close()
                return FlowCal.io.FCSData(h)
            return FlowCal.io.FCSData(self.path)


ATTRS = ['infile', 'text', 'analysis', 'data_type', 'time_step', 'acquisition_start_time', 'acquisition_end_time',
         'acquisition_time', 'channels']


def fingerprint(o):
    """everything observable about one sample (values, numeric kind and width, every metadata attribute)"""
    fp = {'bytes': np.asarray(o.view(np.ndarray)).tobytes(), 'dtype': str(o.dtype), 'shape': tuple(o.shape)}
    for a in ATTRS:
        try:
            v = getattr(o, a)
            fp[a] = repr(sorted(v.items())) if isinstance(v, dict) else repr(v)
        except Exception as e:  # noqa
            fp[a] = 'raises:' + type(e).__name__
    for m in ('amplification_type', 'detector_voltage', 'amplifier_gain', 'channel_labels', 'range', 'resolution'):
        try:
            fp[m] = repr(getattr(o, m)())
        except Exception as e:  # noqa
            fp[m] = 'raises:' + type(e).__name__
        # ... and column by column, by POSITION (two columns may carry one name)
        try:
            fp[m + '/by-position'] = repr([getattr(o, m)(j) for j in range(o.shape[1])]) if o.ndim == 2 else '-'
        except Exception as e:  # noqa
            fp[m + '/by-position'] = 'raises:' + type(e).__name__
    return fp


def derive(o, how, proto=2):
    with warnings.catch_warnings():
        warnings.simplefilter('ignore')
        if how == 'slice_events':
            return o[0:max(1, o.shape[0] - 1)]
        if how == 'slice_channels':
            return o[:, 0:2]
        if how == 'mask':
            m = np.ones(o.shape[0], dtype=bool)
            m[-1] = o.shape[0] == 1
            return o[m]
        n0, n1 = o.channels[0], o.channels[1 if o.shape[1] > 1 else 0]      # whatever channels this object still has
        if how == 'pick_channels':
            return o[:, [n0, n1]]              # advanced index along the channel axis: new, column-ordered buffer
        if how == 'dup_cols':
            names = list(o.channels)
            t = o[:, [names[0], names[-1], names[-1]]]          # one channel named twice
            return FlowCal.transform.to_rfi(t, 2, amplification_type=(2.0, 0.5), resolution=1000)   # the second copy, by position
        if how == 'copy':
            return o.copy()
        if how == 'copycopy':
            return copy.copy(o)
        if how == 'deepcopy':
            return copy.deepcopy(o)
        if how == 'view':
            return o.view()
        if how == 'pickle':
            return pickle.loads(pickle.dumps(o, protocol=proto))
        if how == 'to_rfi':
            return FlowCal.transform.to_rfi(o, n1)
        if how == 'to_mef':
            return FlowCal.transform.to_mef(o, n1, [lambda x: 3.0 * x + 1.0], [n1])
        if how == 'start_end':
            return FlowCal.gate.start_end(o, num_start=0, num_end=1 if o.shape[0] > 1 else 0)
        if how == 'high_low':
            return FlowCal.gate.high_low(o, channels=[n0], high=1e9, low=-1e9)
        if how == 'astype':
            return o.astype(np.float64)
    raise ValueError(how)


def mutate(o, what):
    if what == 'range':
        o.range(0).append(1)            # through the list the accessor hands out
    elif what == 'text':
        o.text['VERIFKEY'] = o.text.get('VERIFKEY', 0) + 1
    elif what == 'analysis':
        o.analysis['VERIFKEY'] = o.analysis.get('VERIFKEY', 0) + 1
    else:
        o[0, 0] = o[0, 0] + 1


def readonly_calls(o):
    """a handful of queries; returns their answers' fingerprint"""
    with warnings.catch_warnings():
        warnings.simplefilter('ignore')
        out = [repr(o.range()), repr(o.hist_bins(0, 4, 'log')), repr(o.hist_bins(nbins=3, scale='linear')),
               repr(FlowCal.stats.mean(o)), repr(FlowCal.gate.high_low(o, full_output=True).mask.tolist()),
               repr(sorted(o.text.items())), repr(o.acquisition_time), repr(o.channels),
               repr(o.amplification_type()), repr(o.resolution(0))]
    return out


def project(objs, base00):
    """sharing graph with ids numbered by first appearance + mutation counts each object sees"""
    ids = {}

    def num(key):
        if key not in ids:
            ids[key] = len(ids) + 1
        return ids[key]
    groups = []          # buffer groups

    def bufgroup(o):
        for g, rep in groups:
            if np.shares_memory(rep, o):
                return g
        g = ('buf', len(groups))
        groups.append((g, o))
        return g
    out = []
    for o in objs:
        rec = {'buf': num(bufgroup(o)), 'ro': num(('l', id(o._range))), 'ri': num(('l', id(o._range[0]))),
               'tx': num(('l', id(o._text))), 'an': num(('l', id(o._analysis)))}
        rec['seen'] = {'buf': int(round(float(o[0, 0]) - base00)), 'rng': len(o._range[0]) - 2,
                       'text': int(o._text.get('VERIFKEY', 0)), 'an': int(o._analysis.get('VERIFKEY', 0))}
        out.append(rec)
    return out


def project_spec(state):
    """same vocabulary from a dumped Heap state"""
    ids = {}

    def num(key):
        if key not in ids:
            ids[key] = len(ids) + 1
        return ids[key]
    out = []
    cell = state['cell']

    def tok(i):
        v = cell[i - 1] if isinstance(cell, list) else cell[i]
        return v % 100
    for o in state['objs']:
        rec = {'buf': num(('c', o['buf'])), 'ro': num(('c', o['ro'])), 'ri': num(('c', o['ri'])), 'tx': num(('c', o['tx'])),
               'an': num(('c', o['an']))}
        rec['seen'] = {'buf': tok(o['buf']), 'rng': tok(o['ri']), 'text': tok(o['tx']), 'an': tok(o['an'])}
        out.append(rec)
    return out
