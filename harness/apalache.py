"""Unbounded companions of TLC-checked invariants: inductive-invariant checks with Apalache (symbolic).
Extra evidence only - reported under coverage.apalache; the claimed level stays model checking with TLC."""
import os
import shutil
import subprocess

from harness import tlc


def inductive(module, indinit='IndInv', timeout=900):
    """Init => IndInv ; IndInv /\\ Next => IndInv' ; and the negative control IndInv /\\ NextBad =/=> IndInv'."""
    d = tlc.scratch('apa_')
    shutil.copy(os.path.join(tlc.SPEC_DIR, 'apalache', module + '.tla'), d)
    runs = {}
    try:
        for tag, args in (('base', ['--init=Init', '--inv=IndInv', '--length=0']),
                          ('step', ['--init=' + indinit, '--inv=IndInv', '--length=1']),
                          ('negative-control', ['--init=' + indinit, '--next=NextBad', '--inv=IndInv', '--length=1'])):
            p = subprocess.run(['apalache-mc', 'check'] + args + ['--out-dir=' + os.path.join(d, 'out'), module + '.tla'], cwd=d,
                               stdout=subprocess.PIPE, stderr=subprocess.STDOUT, universal_newlines=True, timeout=timeout)
            runs[tag] = 'NoError' if 'The outcome is: NoError' in p.stdout else ('Error' if 'The outcome is: Error' in p.stdout else 'failed')
        return {'module': 'spec/apalache/%s.tla' % module, 'runs': runs,
                'inductive': runs == {'base': 'NoError', 'step': 'NoError', 'negative-control': 'Error'}}
    except Exception as e:  # noqa
        return {'module': 'spec/apalache/%s.tla' % module, 'error': repr(e)[:200]}
