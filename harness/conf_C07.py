"""C07 - ranges follow the data through unit changes, so saturation gating commutes.

MC    spec/RangeLaw: mechanism model (events and limits pushed through the same increasing map); TLC proves
      RangeFollows and GateCommutes for the intended design (Skews = {0}) and exhibits the counterexample when
      the two evaluation paths may differ in the last place (Skews = {-1,0,1}) - the deviation the TRACE
      direction looks for in the real code.
TRACE spec/trace/Trace_C07: hypothesis sweeps of (a0, a1, r, gain) and (m, b) over integer samples with events
      at 0, 1, R-2, R-1 in every channel; per draw the harness logs which columns carry a law (unit and range
      terms), whether each converted limit is BITWISE the value of the event that sat at the old limit, and
      whether the default high_low mask is the same before and after the conversion.
"""
import json
import os
import re
import warnings

import numpy as np

from harness import core, tlc, fcsgen, loadform
from harness.core import run_driver

import FlowCal.io  # noqa
import FlowCal.transform  # noqa
import FlowCal.mef  # noqa
import FlowCal.gate  # noqa

RTOL = 2e-14


def std_curve(m, b):
    # the functional form FlowCal.mef.fit_beads_autofluorescence returns as standard curve
    return lambda x: np.sign(x) * np.exp(b) * (np.abs(x) ** m)


def main(chk, replay=None):
    chk.rule = ('TRACE: hypothesis draws of amplifier settings (a0 in [0.5,8] incl. fractional, a1 in {1, 0 (read as 1), 0.5, 2}, '
                'r in {256,1000,1024,4096,262144}, gain in {absent,1,2.5,4}) and curve parameters (m in [0.85,1.25], b in [0,7]) '
                'x channel subsets; every draw is non-trivial (events at both limits and next to them in every channel)')
    chk.assumptions = ['TLC, value parser', 'bitwise comparisons are direct equality observations on outputs of the code',
                       'unit/range term identification by the documented formula (rtol 2e-14)']
    if replay:
        print(json.dumps(replay, indent=1)[:3000])
        return
    for sk, want in (('SkewIntended', True), ('SkewLastPlace', False)):
        cfg = 'SPECIFICATION Spec\nCONSTANTS R = 4\nSkews <- %s\nINVARIANT RangeFollows\nPROPERTY GateCommutes\n' % sk
        res = tlc.run_tlc('RangeLaw', cfg)
        if want and not res.ok:
            raise tlc.MachineryError('RangeLaw: intended design violates its invariants: ' + res.stdout[-1000:])
        if not want and res.violated is None:
            raise tlc.MachineryError('RangeLaw: the last-place skew should break RangeFollows (vacuity guard)')
        if want:
            chk.add_tlc(res, 'RangeLaw[%s]' % sk)
    from hypothesis import given, settings, strategies as st, HealthCheck
    d0 = tlc.scratch('c07_')
    path = os.path.join(d0, 's.fcs')
    recs, metas = [], []

    @st.composite
    def draw_case(draw):
        chans = []
        for c in range(3):
            kind = draw(st.sampled_from(['log', 'log', 'lin']))
            r = draw(st.sampled_from([256, 1000, 1024, 4096, 262144]))
            if kind == 'log':
                a0 = draw(st.one_of(st.sampled_from([4.0, 4.5, 5.0, 2.5, 8.0, 0.5]),
                                    st.floats(0.5, 8.0).map(lambda v: round(v, 3))))
                a1 = draw(st.sampled_from([1.0, 0.0, 0.5, 2.0, 0.1]))
                # the same numbers as different programs write them (repr, fixed six decimals, shortest, exponent form)
                fmt = draw(st.sampled_from(['%r', '%.6f', '%g', '%.3E', '%.2f' if round(a0, 2) == a0 else '%r']))
                pne = (fmt + draw(st.sampled_from([',', ', '])) + fmt) % (a0, a1)
                gain = None
                law = (a0, a1 if a1 != 0 else 1.0)       # documented: a zero offset of a log amplifier is read as 1
            else:
                pne = draw(st.sampled_from(['0,0', '0.0,0.0', '0.000000,0.000000', '0,0.0']))
                g = draw(st.sampled_from([None, 1.0, 2.5, 4.0, 3.0]))
                gain = None if g is None else draw(st.sampled_from(['%g', '%r', '%.6f', '%.1E'])) % g
                law = g or 1.0
            chans.append(dict(kind=kind, r=r, pne=pne, gain=gain, law=law))
        op = draw(st.sampled_from(['to_rfi', 'to_rfi', 'to_mef']))
        cols = draw(st.lists(st.integers(1, 3), min_size=1, max_size=3, unique=True))
        m = draw(st.floats(0.85, 1.25).map(lambda v: round(v, 4)))
        b = draw(st.floats(0.0, 7.0).map(lambda v: round(v, 4)))
        extra = draw(st.lists(st.tuples(st.integers(2, 200), st.integers(2, 200), st.integers(2, 200)), min_size=0, max_size=6))
        # a channel may be named twice in one to_rfi call (a scatter channel that is also listed as fluorescence): the
        # law is then applied twice - to the events and to the limits alike
        # (linear channels only: a log law applied to its own output leaves the floating-point range)
        twice = op == 'to_rfi' and chans[cols[0] - 1]['kind'] == 'lin' and draw(st.sampled_from([False, True]))
        fitted = op == 'to_mef' and draw(st.booleans())
        nozero = draw(st.sampled_from([False, False, True]))       # a sample without any event at the lower limits
        return dict(chans=chans, op=op, cols=cols, m=m, b=b, extra=extra, twice=twice, fitted=fitted, nozero=nozero)

    @settings(max_examples=400 if chk.quick else 20000, deadline=None, database=None, derandomize=True,
              suppress_health_check=list(HealthCheck))
    @given(draw_case())
    def run(case):
        R = [c['r'] for c in case['chans']]
        # events: every channel sees 0, 1, R-2, R-1, in combination with interior and limit values elsewhere
        ev = []
        for c in range(3):
            for v in (0, 1, R[c] - 2, R[c] - 1):
                row = [R[k] // 2 + k for k in range(3)]
                row[c] = v
                ev.append(row)
        ev += [[0, 0, 0], [R[0] - 1, R[1] - 1, R[2] - 1], [1, R[1] - 2, 5]]
        ev += [[min(e[k], R[k] - 2) for k in range(3)] for e in case['extra']]
        if case.get('nozero'):
            ev = [[max(v, 1) for v in e] for e in ev]
        fcsgen.write_sample(path, ev, ['c1', 'c2', 'c3'], R, bits=32, pne=[c['pne'] for c in case['chans']],
                            png=[c['gain'] for c in case['chans']])
        with warnings.catch_warnings():
            warnings.simplefilter('ignore')
            x0 = FlowCal.io.FCSData(loadform.arg(path))
            cols0 = [c - 1 for c in case['cols']]
            if case['op'] == 'to_rfi':
                x = x0
                req = cols0 + ([cols0[0]] if case.get('twice') else [])
                y = FlowCal.transform.to_rfi(x, req)
                fns = {}
                for c in cols0:
                    # the law the FILE records (the numbers drawn above), not what the library says it read
                    ch = case['chans'][c]
                    if ch['kind'] == 'lin':
                        one = (lambda g: (lambda v: np.asarray(v, dtype=np.float64) / g))(ch['law'])
                    else:
                        one = (lambda a0, a1, r: (lambda v: a1 * 10.0 ** (a0 * np.asarray(v, dtype=np.float64) / r)))(ch['law'][0], ch['law'][1], ch['r'])
                    fns[c] = (lambda f: (lambda v: f(f(v))))(one) if req.count(c) == 2 else one
            else:
                x = FlowCal.transform.to_rfi(x0, [0, 1, 2])       # calibrate RFI data, as the workflow does
                # one curve per channel (all different), calibration listed in file order, request in any order
                scs = [std_curve(round(case['m'] + 0.04 * k, 4), round(case['b'] + 0.35 * k, 4)) for k in range(3)]
                if case.get('fitted'):
                    # the standard curves as a calibration makes them: fitted by the library to bead values on that law
                    rfi_pts = np.array([10.0, 40.0, 160.0, 640.0, 2560.0, 9000.0])
                    scs = [FlowCal.mef.fit_beads_autofluorescence(rfi_pts, f(rfi_pts))[0] for f in scs]
                y = FlowCal.transform.to_mef(x, cols0, scs, [0, 1, 2])
                fns = {c: scs[c] for c in cols0}
            m1 = FlowCal.gate.high_low(x, full_output=True).mask
            m2 = FlowCal.gate.high_low(y, full_output=True).mask
        xv = np.asarray(x.view(np.ndarray))
        yv = np.asarray(y.view(np.ndarray))
        uterm, rterm, lo_bw, hi_bw = [], [], [], []
        for c in range(3):
            xr = np.array(x.range(c), dtype=np.float64)
            yr = np.array(y.range(c), dtype=np.float64)
            raw_same = yv[:, c].tobytes() == xv[:, c].astype(np.float64).tobytes()
            if c in fns:      # a law that happens to be the identity (gain 1) is still that law
                uterm.append('law' if np.allclose(yv[:, c], fns[c](xv[:, c]), rtol=RTOL, atol=0) else
                             ('raw' if raw_same else 'unknown'))
                rterm.append('law' if np.allclose(yr, fns[c](xr), rtol=RTOL, atol=0) else
                             ('raw' if yr.tolist() == xr.tolist() else 'unknown'))
            else:
                uterm.append('raw' if raw_same else 'unknown')
                rterm.append('raw' if yr.tolist() == xr.tolist() else 'unknown')
            x0v = np.asarray(x0.view(np.ndarray))
            at_lo = np.nonzero(x0v[:, c] == 0)[0]                  # an event that sat at the raw lower limit (if any)
            ihi = int(np.nonzero(x0v[:, c] == R[c] - 1)[0][0])     # ... and at the raw upper limit
            lo_bw.append(bool(float(yv[int(at_lo[0]), c]) == float(yr[0])) if len(at_lo) else True)
            hi_bw.append(bool(float(yv[ihi, c]) == float(yr[1])))
        recs.append({'op': case['op'], 'cols': case['cols'], 'uterm': uterm, 'rterm': rterm, 'lim_lo_bitwise': lo_bw,
                     'lim_hi_bitwise': hi_bw, 'masks_equal': bool(np.array_equal(m1, m2))})
        metas.append({'op': case['op'], 'cols': case['cols'], 'chans': case['chans'], 'm': case['m'], 'b': case['b'],
                      'kept_before': int(m1.sum()), 'kept_after': int(m2.sum())})

    run()
    ctl = json.loads(json.dumps(recs[0]))
    ctl['masks_equal'] = False
    recs.append(ctl)
    tf = os.path.join(d0, 'trace.ndjson')
    with open(tf, 'w') as f:
        for r in recs:
            f.write(json.dumps(r) + '\n')
    res = tlc.run_tlc('Trace_C07', 'SPECIFICATION Spec\nPOSTCONDITION AllConsumed\n', workers=1, env={'TRACE_FILE': tf})
    if not res.ok:
        raise tlc.MachineryError('Trace_C07 failed: ' + (res.error_text or res.stdout[-2000:]))
    chk.add_tlc(res, 'Trace_C07')
    rejects = {int(m.group(1)): m.group(2) for m in re.finditer(r'<<"REJECT", (\d+), "([^"]+)">>', res.stdout)}
    chk.negative_control(len(recs) in rejects, 'Trace_C07 accepted masks_equal = FALSE')
    rejects.pop(len(recs), None)
    for i, (r, m) in enumerate(zip(recs[:-1], metas), 1):
        chk.case(('t', core.stable_hash(m)), nontrivial=True, sample={'case': m, 'record': r} if i in (1, 2) else None)
        chk.traces += 1
        if i in rejects:
            kinds = '+'.join(sorted({m['chans'][c - 1]['kind'] for c in m['cols']}))
            chk.violation('C07/%s/%s/%s' % (m['op'], kinds, rejects[i].replace('C07.', '')), m, {'verdict': rejects[i]}, r,
                          direction='trace')

    from harness import session
    session.run(chk, 'C07')          # spec/Session.tla: the property inside whole analysis sessions

if __name__ == '__main__':
    run_driver('C07', main)
