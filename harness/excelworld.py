"""Generated experiments for the Excel workflow properties (C10, C11, C15): FCS files, the instruments /
beads / samples tables as the workflow reads them, rendering of abstract ExcelUI.tla rows into table rows,
classification of row outcomes, and the interpreter that executes a row's `calls` program by hand."""
import collections
import os
import re
import warnings

import numpy as np
import pandas as pd

from harness import fcsgen, tlc

import FlowCal.io
import FlowCal.transform
import FlowCal.gate
import FlowCal.stats
import FlowCal.excel_ui

INSTR = {
    'A': dict(sc=['FSC-H', 'SSC-H'], fl=['FL1-H', 'FL2-H'], extra=['FL3-H']),
    'B': dict(sc=['FSC-A', 'SSC-A'], fl=['B1-A', 'Y1-A'], extra=['V1-A']),
}
MEF = {0: [0, 646, 1704, 4827, 15991, 47609, 135896, 273006], 1: [0, 1614, 4035, 12025, 31896, 95682, 353225, 1077421]}

ERR_PATTERNS = [
    ('file-not-found', r'file ".*" not found'),
    ('fewer-than-400-events', r'number of events is lower than 400'),
    ('gate-fraction', r'gate fraction should be between 0 and 1'),
    ('units-not-recognized', r'units ".*" not recognized'),
    ('mef-function-not-available', r'MEF transformation function not available'),
    ('other-instrument', r'Instruments for acquisition of beads and samples are not the same'),
    ('other-amplification', r'Amplification type for acquisition of beads and samples'),
    ('other-voltage', r'Detector voltage for acquisition of beads and samples'),
    ('no-standard-curve', r'no standard curve for channel'),
    ('unequal-mef-counts', r'Must specify the same number of MEF Values'),
]


def classify_error(e):
    s = str(e)
    for k, pat in ERR_PATTERNS:
        if re.search(pat, s):
            return k
    return 'other:' + s[:60]


# acceptable message kinds per expected kind (the statement only asks for a row-level error; where two documented
# checks can both legitimately fire first, either message is accepted)
ACCEPT = {'no-standard-curve': {'no-standard-curve', 'other-amplification', 'other-voltage'}}


class World(object):
    def __init__(self, n_events=1500, seed=11):
        self.dir = tlc.scratch('xl_')
        rnd = np.random.RandomState(seed)
        self.files = {}
        for inst, spec in INSTR.items():
            names = spec['sc'] + spec['fl'] + spec['extra'] + ['Time']
            n = n_events
            cols = [np.clip(rnd.normal(500, 70, n), 0, 1023), np.clip(rnd.normal(420, 90, n), 0, 1023),
                    np.clip(rnd.normal(450, 80, n), 0, 1023), np.clip(rnd.normal(300, 120, n), 0, 1023),
                    np.clip(rnd.normal(200, 60, n), 0, 1023), np.arange(n) % 1024]
            ev = np.stack(cols, axis=1).astype(int)
            # events at the detector limits in every channel (some only in one channel), away from the trimmed ends
            for k, c in enumerate(range(5)):
                ev[300 + 7 * k, c] = 1023
                ev[320 + 7 * k, c] = 0
            pne = ['0,0', '0,0', '4,1', '4,1', '4,1', '0,0']
            pnv = ['300', '310', '500', '510', '520', None]
            extra = [('$TIMESTEP', '0.01'), ('$BTIM', '10:00:00'), ('$ETIM', '10:00:30'), ('$DATE', '01-Jan-2020')]
            for tag, dt in (('int', 'I'), ('float', 'F'), ('float2', 'F')):
                p = os.path.join(self.dir, 'cells_%s_%s.fcs' % (inst, tag))
                if dt == 'I':
                    vals, fpne = ev.tolist(), pne
                else:
                    # float files: the third fluorescence channel is linear and holds negative (compensated) values;
                    # the two float files differ in their most negative event
                    vals = [[float(v) + 0.25 for v in r] for r in ev]
                    shift = 260.0 if tag == 'float' else 330.0
                    for r in vals:
                        r[4] = r[4] - shift
                    for k in range(400, 1200, 97):        # and a few events above the nominal range (legal in float files)
                        vals[k][4] = 1500.0 + k
                    for k in range(450, 1250, 131):       # scatter readings above the nominal range: outside every density-gate grid
                        vals[k][0] = 1200.0 + k
                        vals[k + 3][1] = 1100.0 + k
                    # scatter readings below zero (baseline-subtracted debris): float files are not gated for saturation, so
                    # these reach the density gate and set the linear width of each scatter axis' logicle bins - a different
                    # most negative reading per channel, and in the side scatter of the two files two values a hair apart
                    for q, k in enumerate(range(465, 1265, 131)):
                        vals[k][0] = -40.0 + 5.0 * q
                        vals[k + 2][1] = -(95.0 if tag == 'float' else 94.0) + 11.0 * q
                    fpne = pne[:4] + ['0,0'] + pne[5:]
                    fpng = [None, None, None, None, '2.5', None]        # the linear channel has an amplifier gain
                fcsgen.write_sample(p, vals, names, [1024] * 6, bits=16, datatype=dt, pne=fpne, pnv=pnv, png=(fpng if dt != 'I' else None), extra=extra)
                self.files[(inst, tag)] = os.path.basename(p)
            # the same integer events with the parameters stored in the opposite order (channels are addressed by name)
            p = os.path.join(self.dir, 'cells_%s_int_perm.fcs' % inst)
            fcsgen.write_sample(p, ev[:, ::-1].tolist(), names[::-1], [1024] * 6, bits=16, pne=pne[::-1], pnv=pnv[::-1], extra=extra)
            self.files[(inst, 'int-perm')] = os.path.basename(p)
            # another recording of the same panel (fewer events): what a re-exported file of the same name may hold
            p = os.path.join(self.dir, 'cells_%s_int_b.fcs' % inst)
            fcsgen.write_sample(p, ev[170:].tolist(), names, [1024] * 6, bits=16, pne=pne, pnv=pnv, extra=extra)
            self.files[(inst, 'int-b')] = os.path.basename(p)
            p = os.path.join(self.dir, 'cells_%s_short.fcs' % inst)
            fcsgen.write_sample(p, ev[:300].tolist(), names, [1024] * 6, bits=16, pne=pne, pnv=pnv, extra=extra)
            self.files[(inst, 'short')] = os.path.basename(p)
            # beads: 8 populations of equal size in both fluorescence channels
            pops = []
            m = 260
            for k in range(8):
                fl1 = 256.0 * np.log10(6.0 * 2.9 ** k) + rnd.normal(0, 3.0, m)
                fl2 = 256.0 * np.log10(4.0 * 3.1 ** k) + rnd.normal(0, 3.0, m)
                pops.append(np.stack([rnd.normal(500, 12, m), rnd.normal(450, 12, m), fl1, fl2, rnd.normal(100, 10, m),
                                      np.zeros(m)], axis=1))
            bev = np.clip(np.concatenate(pops), 1, 1022)
            bev = bev[rnd.permutation(len(bev))].astype(int)
            bev[:, 5] = np.arange(len(bev)) % 1024
            for tag, bpne, bpnv, nb in (('ok', pne, pnv, len(bev)), ('lin', ['0,0', '0,0', '0,0', '0,0', '4,1', '0,0'], pnv, len(bev)),
                                        ('volt', pne, ['300', '310', '777', '778', '520', None], len(bev)), ('short', pne, pnv, 320)):
                p = os.path.join(self.dir, 'beads_%s_%s.fcs' % (inst, tag))
                fcsgen.write_sample(p, bev[:nb].tolist(), names, [1024] * 6, bits=16, pne=bpne, pnv=bpnv, extra=extra)
                self.files[(inst, 'beads-' + tag)] = os.path.basename(p)
        self.instruments = pd.DataFrame(
            collections.OrderedDict([
                ('Description', ['instrument A', 'instrument B']),
                ('Forward Scatter Channel', [INSTR['A']['sc'][0], INSTR['B']['sc'][0]]),
                ('Side Scatter Channel', [INSTR['A']['sc'][1], INSTR['B']['sc'][1]]),
                ('Fluorescence Channels', [', '.join(INSTR['A']['fl'] + INSTR['A']['extra']), ', '.join(INSTR['B']['fl'] + INSTR['B']['extra'])]),
                ('Time Channel', ['Time', 'Time'])]),
            index=pd.Index(['A', 'B'], name='ID'))
        self._beads_cache = {}
        os.makedirs(os.path.join(self.dir, 'a_folder'), exist_ok=True)

    # ------------------------------------------------------------------ beads
    MEF_HDR = ['%s MEF Values', ' %s MEF Values', '%s  MEF Values']     # header spellings the documented pattern accepts

    def beads_table(self, fault='none', inst='A', rows=('BOK', 'BNOMEF', 'BFAIL', 'BOTHER', 'BAMP', 'BVOLT', 'BNOCURVE'), hdr=0):
        fl = INSTR[inst]['fl']
        other = 'B' if inst == 'A' else 'A'
        mv = [', '.join(str(v) if v else 'None' for v in MEF[0]), ', '.join(str(v) if v else 'None' for v in MEF[1])]
        recs = collections.OrderedDict()

        def row(i, f, frac=0.3, m1=mv[0], m2=mv[1], cl=None):
            r = collections.OrderedDict([('Instrument ID', i), ('File Path', f), ('Clustering Channels', cl or ', '.join(INSTR[i]['fl'])),
                                         ('Gate Fraction', frac)])
            for j, c in enumerate(INSTR['A']['fl'] + INSTR['B']['fl']):
                r[self.MEF_HDR[hdr] % c] = None
            for j, c in enumerate(INSTR[i]['fl']):
                r[self.MEF_HDR[hdr] % c] = (m1, m2)[j]
            return r
        for rid in rows:
            if rid == 'BOK':
                recs[rid] = row(inst, self.files[(inst, 'beads-ok')])
            elif rid == 'BNOMEF':        # healthy beads row without any MEF values, listed right after a calibrated one
                recs[rid] = row(inst, self.files[(inst, 'beads-ok')], m1=None, m2=None)
            elif rid == 'BFAIL':
                if fault == 'none':
                    recs[rid] = row(inst, self.files[(inst, 'beads-ok')], cl=fl[0])
                elif fault == 'missing':
                    recs[rid] = row(inst, 'no_such_beads_file.fcs')
                elif fault == 'short':
                    recs[rid] = row(inst, self.files[(inst, 'beads-short')])
                elif fault == 'fraction':
                    recs[rid] = row(inst, self.files[(inst, 'beads-ok')], frac=1.5)
                elif fault == 'unequal':
                    recs[rid] = row(inst, self.files[(inst, 'beads-ok')], m2=', '.join(mv[1].split(', ')[:-1]))
            elif rid == 'BOTHER':
                recs[rid] = row(other, self.files[(other, 'beads-ok')])
            elif rid == 'BAMP':
                recs[rid] = row(inst, self.files[(inst, 'beads-lin')])
            elif rid == 'BVOLT':
                recs[rid] = row(inst, self.files[(inst, 'beads-volt')])
            elif rid == 'BNOCURVE':
                recs[rid] = row(inst, self.files[(inst, 'beads-ok')], m1=mv[0], m2=None)      # no values for the second channel
        t = pd.DataFrame.from_dict(recs, orient='index')
        t.index.name = 'ID'
        return t

    def beads(self, fault='none', inst='A', hdr=0):
        """process the reference beads table once per (fault, instrument, header spelling): (table with stats, samples, fxns, outputs)"""
        key = (fault, inst) if hdr == 0 else (fault, inst, hdr)
        if key not in self._beads_cache:
            t = self.beads_table(fault, inst, hdr=hdr)
            np.random.seed(3)
            with warnings.catch_warnings():
                warnings.simplefilter('ignore')
                bs, fx, mo = FlowCal.excel_ui.process_beads_table(t, self.instruments, base_dir=self.dir, verbose=False, plot=False,
                                                                  full_output=True)
                FlowCal.excel_ui.add_beads_stats(t, bs, mo)
            self._beads_cache[key] = (t, bs, fx, mo)
        t, bs, fx, mo = self._beads_cache[key]
        # every caller gets its own copy of the transformation functions, as a run of the workflow makes them anew:
        # whatever one table's processing (or a hand composition) leaves in them must not reach the reference it is
        # compared with
        import copy
        return t, bs, copy.deepcopy(fx), mo

    # ------------------------------------------------------------------ samples
    SPELL = {'channel': ['Channel', 'channel', 'CHANNEL', ' Channel '], 'rfi': ['RFI', 'rfi', ' Rfi '], 'au': ['a.u.', 'au', 'A.U.', 'AU'],
             'mef': ['MEF', 'mef', 'Mef '], 'unknown': ['furlongs', 'MEFs'], 'empty': [None]}
    BEADS_ROW = {'ok': 'BOK', 'nomef': 'BNOMEF', 'failed': 'BFAIL', 'nocurve': 'BNOCURVE', 'other-inst': 'BOTHER', 'other-amp': 'BAMP', 'other-volt': 'BVOLT'}

    @staticmethod
    def units_header(ch, style=0):
        """the '<channel> Units' column header as a user may type it (the workflow's header pattern allows blanks)"""
        return (ch + ' Units') if not style else (' ' + ch + '  Units ')

    def sample_row(self, r, inst='A', variant=0, frac_in=0.3, style=0):
        fl = INSTR[inst]['fl'] + INSTR[inst]['extra']
        f = {'ok-int': self.files[(inst, 'int' if variant % 3 != 1 else 'int-perm')], 'ok-float': self.files[(inst, 'float' if variant % 2 == 0 else 'float2')],
             # no such file / a path THROUGH a regular file / a folder: in each case the file is not there
             'missing': ['no_such_file.fcs', self.files[(inst, 'int')] + '/events.fcs', 'a_folder'][variant % 3],
             'short': self.files[(inst, 'short')]}[r['file']]
        # outside [0, 1] by a lot, or by so little that fraction x events still rounds to a legal count
        frac = {'in': frac_in, 'above': 1.2 if variant % 2 == 0 else 1.0004, 'below': -0.1 if variant % 2 == 0 else -0.0004}[r['frac']]
        row = collections.OrderedDict([('Instrument ID', inst), ('Beads ID', self.BEADS_ROW[r['beads']]), ('File Path', f),
                                       ('Gate Fraction', frac)])
        for j, u in enumerate(r['units']):
            sp = self.SPELL[u]
            row[self.units_header(fl[j], style)] = sp[(variant + j) % len(sp)]
        return row

    def samples_table(self, rows, inst='A', variant=0, fracs=None, style=None):
        recs = collections.OrderedDict()
        style = (variant % 4 == 3) if style is None else style          # one table in four has padded headers
        for i, r in enumerate(rows):
            recs['S%d' % (i + 1)] = self.sample_row(r, inst, variant + i, frac_in=(fracs[i] if fracs else 0.3), style=style)
        t = pd.DataFrame.from_dict(recs, orient='index') if recs else pd.DataFrame(
            columns=['Instrument ID', 'Beads ID', 'File Path', 'Gate Fraction'] + [self.units_header(c, style) for c in INSTR[inst]['fl'] + INSTR[inst]['extra']])
        t.index.name = 'ID'
        return t

    def process(self, table, beads_fault='none', inst='A', plot_dir=None, hdr=0):
        """plot_dir: a folder name (under the world's directory) - the diagnostic figures are drawn as well"""
        bt, bs, fx, mo = self.beads(beads_fault, inst, hdr)
        with warnings.catch_warnings():
            warnings.simplefilter('ignore')
            try:
                return FlowCal.excel_ui.process_samples_table(table, self.instruments, mef_transform_fxns=fx, beads_table=bt,
                                                              base_dir=self.dir, verbose=False, plot=plot_dir is not None,
                                                              plot_dir=plot_dir)
            finally:
                if plot_dir is not None:
                    import matplotlib.pyplot as plt
                    import shutil
                    plt.close('all')
                    shutil.rmtree(os.path.join(self.dir, plot_dir), ignore_errors=True)

    # ------------------------------------------------------------------ hand composition (C10)
    def by_hand(self, row_cfg, table_row, calls, inst='A', beads_fault='none'):
        """execute the spec's `calls` program with the library functions themselves"""
        bt, bs, fx, mo = self.beads(beads_fault, inst)
        spec = INSTR[inst]
        with warnings.catch_warnings():
            warnings.simplefilter('ignore')
            s = FlowCal.io.FCSData(os.path.join(self.dir, table_row['File Path']))
            allfl = spec['fl'] + spec['extra']
            reported = [allfl[j] for j, u in enumerate(row_cfg['units']) if u != 'empty']
            for fn, args in calls:
                if fn == 'to_rfi':
                    # by hand every conversion is written in the list form, with the channel by position (the workflow
                    # uses a name list for the scatter channels and a scalar name per fluorescence channel)
                    ch = spec['sc'] if args == ['scatter'] else [allfl[args[1] - 1]]
                    s = FlowCal.transform.to_rfi(s, [list(s.channels).index(c) for c in ch])
                elif fn == 'to_mef':
                    # by hand: the ONE standard curve the referenced beads row fitted for this channel, applied through a
                    # call of its own (the workflow goes through the beads row's function, which holds all its curves)
                    out = mo[table_row['Beads ID']]
                    ch = allfl[args[1] - 1]
                    crv = out.fitting['std_crv'][list(out.mef_channels).index(ch)]
                    s = FlowCal.transform.to_mef(s, [list(s.channels).index(ch)], [crv], [ch])
                elif fn == 'start_end':
                    s = FlowCal.gate.start_end(s, num_start=args[0], num_end=args[1])
                elif fn == 'high_low':
                    s = FlowCal.gate.high_low(s, spec['sc'] + reported)
                elif fn == 'density2d':
                    # by hand the grid is spelled out: each scatter axis' own 1024 logicle bins (computed on that column
                    # alone), which is what the default `bins=1024` is documented to mean
                    edges = [s[:, [c]].hist_bins(0, 1024, 'logicle') for c in spec['sc']]
                    s = FlowCal.gate.density2d(s, channels=spec['sc'], bins=edges, gate_fraction=table_row['Gate Fraction'],
                                               xscale='logicle', yscale='logicle')
                else:
                    raise ValueError(fn)
        return s


def same_sample(a, b):
    """bitwise equality of two samples: values, dtype, ranges, every per-channel attribute"""
    if type(a) is not type(b) or a.shape != b.shape or a.dtype != b.dtype:
        return 'shape-or-type'
    if np.asarray(a.view(np.ndarray)).tobytes() != np.asarray(b.view(np.ndarray)).tobytes():
        return 'values'
    if repr(a.range()) != repr(b.range()):
        return 'range'
    for m in ('amplification_type', 'detector_voltage', 'amplifier_gain', 'channel_labels', 'resolution'):
        if repr(getattr(a, m)()) != repr(getattr(b, m)()):
            return m
    if a.channels != b.channels:
        return 'channels'
    return None
