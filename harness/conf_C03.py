"""C03 - RFI conversion applies exactly the amplifier law of each selected channel.

MC+GEN spec/Units via spec/gen/Gen_C03: environment actions choose container, channel form and the shape
of each of the three settings; the final action runs the argument-normalisation table and the per-channel
law selection and yields Refused or one symbolic law per column.  TLC checks OnlyRequested,
BatchIsSequential, LengthMismatchRefused.  Each scenario is executed with the real to_rfi; the law on each
column is identified by evaluating the documented formula on the original column; converting the same
channels one at a time in every order, and by other spellings, must give bitwise identical results.
"""
import itertools
import json
import zlib
import os
import warnings

import numpy as np

from harness import core, tlc, fcsgen, loadform
from harness.core import run_driver

import FlowCal.io  # noqa
import FlowCal.transform  # noqa

R = [1024, 256, 1000]
EVENTS = [[0, 0, 0], [1, 1, 1], [1022, 254, 998], [1023, 255, 999], [500, 77, 123], [37, 200, 640]]
NCH = 3          # channels of every container (Gen_C03.C)
RTOL = 2e-14


def fr(q):
    return q[0] / q[1]


def law_fn(law):
    if law['k'] == 'log':
        a0, a1, r = fr(law['a0']), fr(law['a1']), law['r']
        return lambda x: a1 * 10.0 ** (a0 * np.asarray(x, dtype=np.float64) / r)
    if law['k'] == 'lin':
        g = fr(law['g'])
        return lambda x: np.asarray(x, dtype=np.float64) / g
    raise ValueError(law)


class World(object):
    def __init__(self):
        self.dir = tlc.scratch('c03_')
        self.objs = {}
        # the SAME recorded settings in four dialects (what different acquisition programs write): the law depends on the
        # settings, not on their spelling.  0 plain; 1 fixed six decimals, blank after the comma; 2 a FlowJo Collector's
        # Edition file that carries the standard gain keyword; 3 the same program's own gain keyword only
        for cont in ('sample', 'sample-nogain'):
            for d in range(4):
                path = os.path.join(self.dir, '%s%d.fcs' % (cont, d))
                pne = ['4,1', '0,0' if cont == 'sample' else '2.5,0', '0,0']
                gain = '4' if cont == 'sample' else None
                extra = []
                if d == 1:
                    pne = ['4.000000, 1.000000', '0.000000,0.000000' if cont == 'sample' else '2.500000,0.000000', '0.0,0.0']
                    gain = gain and '4.000000'
                if d >= 2:
                    extra = [('CREATOR', 'FlowJoCollectorsEdition 7.5.110.7')]
                if d == 3 and gain:
                    extra += [('CytekP01G', '1.0'), ('CytekP02G', '1.0'), ('CytekP03G', '4.0')]
                    gain = None
                kw = {}
                if d == 1 and gain:
                    # ... and the optional gain keyword lives in a supplemental TEXT segment stored BEFORE the primary one
                    # (segments are located by their offsets only)
                    kw = dict(supp_pairs=[('$P3G', gain)], stext_first=True)
                    gain = None
                fcsgen.write_sample(path, EVENTS, ['c1', 'c2', 'c3'], R, bits=16, pne=pne, png=[None, None, gain],
                                    pnv=['400', '500', '600'], pns=['A', 'B', 'C'], extra=extra, **kw)
                with warnings.catch_warnings():
                    warnings.simplefilter('ignore')
                    self.objs[(cont, d)] = FlowCal.io.FCSData(loadform.arg(path))
            self.objs[cont] = self.objs[(cont, 0)]
        # (conf_C06) two columns carrying one name: told apart by position only
        self.objs['sample-dupname'] = self.objs['sample'][:, ['c1', 'c2', 'c1']]
        self.objs['array'] = np.array(EVENTS, dtype=np.int64)
        self.objs['array-float'] = np.array(EVENTS, dtype=np.float64)
        # the floating-point file of the specification, stored in double and in single precision (the recorded readings are
        # whole numbers: both hold them exactly, and the documented law is evaluated in double precision either way)
        for d, dt in enumerate(('D', 'F', 'D', 'F')):
            path = os.path.join(self.dir, 'float%d.fcs' % d)
            fcsgen.write_sample(path, [[float(v) for v in r] for r in EVENTS], ['c1', 'c2', 'c3'], R, datatype=dt, big=(d >= 2),
                                pne=['4,1', '0,0', '0,0'], png=[None, None, '4'], pnv=['400', '500', '600'], pns=['A', 'B', 'C'])
            with warnings.catch_warnings():
                warnings.simplefilter('ignore')
                self.objs[('sample-double', d)] = FlowCal.io.FCSData(loadform.arg(path))
        self.objs['sample-double'] = self.objs[('sample-double', 0)]

    def fresh(self, cont, k=0):
        return self.objs.get((cont, k % 4), self.objs[cont])


def fingerprint(x):
    fp = [np.asarray(x.view(np.ndarray)).tobytes(), str(x.dtype), x.shape]
    if isinstance(x, FlowCal.io.FCSData):
        fp += [json.dumps(x.range()), list(x.channels), x.amplification_type(), x.amplifier_gain(), x.detector_voltage(),
               x.channel_labels(), x.resolution()]
    return fp


def render_ch(f):
    if f['t'] == 'none':
        return None
    el = [('c%d' % c) if n == 1 else (c - 1 - NCH if n == 2 else c - 1) for c, n in zip(f['cols'], f['named'])]
    if f['t'] == 'scalar':
        return el[0]
    return tuple(el) if f['tup'] else el


def render_val(kind, v):
    if v == []:
        return None
    if kind == 'at':
        return (fr(v[0]), fr(v[1]))
    if kind == 'ag':
        return fr(v)
    return int(v[0] // v[1])


def render_arg(kind, a):
    if a['t'] == 'none':
        return None
    if a['t'] == 'scalar':
        return render_val(kind, a['vals'][0])
    return [render_val(kind, v) for v in a['vals']]


def check_result(x, y, terms):
    """x input, y output of to_rfi, terms[c] list of laws applied to column c.  -> label or None"""
    if not isinstance(y, np.ndarray) or y.shape != x.shape:
        return 'shape'
    if y.dtype != np.float64:
        return 'dtype'
    xv = np.asarray(x.view(np.ndarray))
    yv = np.asarray(y.view(np.ndarray))
    for c, laws in enumerate(terms):
        ref = xv[:, c].astype(np.float64)
        for law in laws:
            ref = law_fn(law)(ref)
        if not laws:
            if yv[:, c].tobytes() != ref.tobytes():
                return 'untouched-column-changed'
        elif not np.allclose(yv[:, c], ref, rtol=RTOL, atol=0):
            return 'law-col%d' % (c + 1)
    if isinstance(x, FlowCal.io.FCSData):
        if type(y) is not type(x):
            return 'class'
        for c, laws in enumerate(terms):
            lim = np.array(x.range(c), dtype=np.float64)
            for law in laws:
                lim = law_fn(law)(lim)
            got = np.array(y.range(c), dtype=np.float64)
            if (not laws and got.tolist() != lim.tolist()) or (laws and not np.allclose(got, lim, rtol=RTOL, atol=0)):
                return 'range-col%d' % (c + 1)
        if (list(y.channels), y.amplification_type(), y.amplifier_gain(), y.detector_voltage(), y.channel_labels(),
                y.resolution()) != (list(x.channels), x.amplification_type(), x.amplifier_gain(), x.detector_voltage(),
                                    x.channel_labels(), x.resolution()):
            return 'metadata'
    return None


WORLD = None


def work(item):
    """one scenario -> dict(label, obs, key, sig, kw)"""
    import hashlib
    st = item
    W = WORLD
    cont, f, at, ag, rs = st['scn']
    exp = st['out']
    x = W.fresh(cont, zlib.crc32(json.dumps(st['scn']).encode()))
    before = fingerprint(x)
    kw = dict(channels=render_ch(f), amplification_type=render_arg('at', at), amplifier_gain=render_arg('ag', ag),
              resolution=render_arg('res', rs))
    kw_before = repr(kw)
    try:
        with warnings.catch_warnings():
            warnings.simplefilter('ignore')
            if st.get('_i', 0) % 2:
                # the documented positional order: data, channels, amplification_type, amplifier_gain, resolution
                y = FlowCal.transform.to_rfi(x, kw['channels'], kw['amplification_type'], kw['amplifier_gain'], kw['resolution'])
            else:
                y = FlowCal.transform.to_rfi(x, **kw)
        obs = 'ok'
    except Exception as e:  # noqa
        y = None
        obs = 'raises:' + type(e).__name__
    lab = None
    key = sig = None
    if fingerprint(x) != before:
        lab = 'input-mutated'
    elif repr(kw) != kw_before:
        # the caller's settings lists are reused for the next sample: what the call wrote into them would override
        # that sample's own recorded settings
        lab = 'caller-settings-list-changed'
    elif exp['k'] == 'refused':
        lab = None if y is None else 'accepted'
    elif y is None:
        lab = obs
    else:
        lab = check_result(x, y, exp['terms'])
        if lab is None:
            key = (cont, json.dumps(exp['terms']))
            sig = hashlib.sha1(np.asarray(y.view(np.ndarray)).tobytes() + (json.dumps(y.range()) if hasattr(y, 'range') else '').encode()).hexdigest()
        if lab is None and f['t'] == 'list' and len(f['cols']) <= 3:
            req = list(f['cols'])
            elems = render_ch(f)
            for perm in itertools.permutations(range(len(req))):
                z = x
                for j in perm:
                    zin, zfp = z, fingerprint(z)
                    z = FlowCal.transform.to_rfi(
                        z, elems[j],
                        amplification_type=None if kw['amplification_type'] is None else kw['amplification_type'][j],
                        amplifier_gain=None if kw['amplifier_gain'] is None else kw['amplifier_gain'][j],
                        resolution=None if kw['resolution'] is None else kw['resolution'][j])
                    if fingerprint(zin) != zfp:
                        lab = 'intermediate-input-mutated'
                if lab:
                    break
                if np.asarray(z.view(np.ndarray)).tobytes() != np.asarray(y.view(np.ndarray)).tobytes() or \
                        (hasattr(y, 'range') and json.dumps(z.range()) != json.dumps(y.range())):
                    lab = 'sequential!=batch'
                    break
    return {'lab': lab, 'obs': obs, 'key': key, 'sig': sig, 'kw': {k: repr(v) for k, v in kw.items()}}


def main(chk, replay=None):
    global WORLD
    chk.rule = ('GEN: 5 containers x 97 channel forms x 7 shapes for each of amplification_type / amplifier_gain / '
                'resolution (none, full list, partial list, wrong lengths, scalar); non-trivial = a conversion that changes '
                'at least one column, or a refusal caused by argument shapes')
    chk.assumptions = ['TLC, value parser', 'law identified by the documented formula evaluated in float64, rtol 2e-14',
                       'untouched columns and sequential/batch results compared bitwise']
    if replay:
        print(json.dumps(replay, indent=1)[:3000])
        return
    WORLD = World()
    cfg = 'SPECIFICATION Spec\nINVARIANT OnlyRequested\nINVARIANT BatchIsSequential\nINVARIANT LengthMismatchRefused\n'
    res = tlc.require_ok(tlc.run_tlc('Gen_C03', cfg, dump=True), 'Gen_C03')
    chk.add_tlc(res, 'Gen_C03')
    items = []
    for i, st in enumerate(res.dump_states()):
        if st['stage'] != 100:
            continue
        if chk.quick and st['out']['k'] == 'refused' and (i + chk.seed) % 4 != 0:
            continue        # quick tier: every accepted call, a quarter of the refused ones
        st['_i'] = len(items)          # every other scenario is called positionally
        items.append(st)
    import multiprocessing as mp
    with mp.get_context('fork').Pool(min(16, os.cpu_count() or 1)) as pool:
        outs = pool.map(work, items, chunksize=400)
    same_result = {}
    for st, o in zip(items, outs):
        cont, f, at, ag, rs = st['scn']
        exp = st['out']
        lab = o['lab']
        if lab is None and o['key'] is not None:
            # identical results for every spelling / ordering of the same request
            if o['key'] in same_result and same_result[o['key']] != o['sig']:
                lab = 'differs-from-other-spelling-or-order'
            same_result.setdefault(o['key'], o['sig'])
        nontriv = (exp['k'] == 'ok' and any(exp['terms'])) or (exp['k'] == 'refused' and not cont.startswith('array'))
        chk.case(('c03', json.dumps(st['scn'])), nontrivial=nontriv,
                 sample={'scenario': st['scn'], 'call': o['kw'], 'expected': exp, 'observed': o['obs']} if chk.traces % 9001 == 77 else None)
        chk.traces += 1
        if lab is not None:
            chk.violation('C03/%s/%s/%s' % (cont, f['t'], lab), {'scenario': st['scn'], 'call': o['kw']}, exp, o['obs'])
    # negative control: the term identification must tell r from r-1 and g from g+1
    x = WORLD.fresh('sample')
    y = FlowCal.transform.to_rfi(x, [0, 2])
    good = [[{'k': 'log', 'a0': [4, 1], 'a1': [1, 1], 'r': 1024, 'g': [], 'id': 0}], [], [{'k': 'lin', 'a0': [], 'a1': [], 'r': 0, 'g': [4, 1], 'id': 0}]]
    bad1 = json.loads(json.dumps(good))
    bad1[0][0]['r'] = 1023
    bad2 = json.loads(json.dumps(good))
    bad2[2][0]['g'] = [5, 1]
    if check_result(x, y, good) is not None:
        raise tlc.MachineryError('C03 negative control: reference terms are not accepted')
    chk.negative_control(check_result(x, y, bad1) is not None and check_result(x, y, bad2) is not None,
                         'C03 term identification accepts r-1 / g+1')
    from harness import session
    session.run(chk, 'C03')          # spec/Session.tla: the property inside whole analysis sessions
    chk.exhaustive = True


if __name__ == '__main__':
    run_driver('C03', main)
