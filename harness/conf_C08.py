"""C08 - every gate returns exactly its documented predicate, applied as a mask.

MC+GEN spec/Gates via spec/gen/Gen_C08 (start_end, high_low, ellipse at rotation 0 with integer
parameters): environment actions choose events, container, channel form and parameters; the final
action computes the documented mask (or Err).  Each scenario is executed with full_output True and
False; mask, gated data (= input[mask] with the input's metadata) and short form are compared.
Logged observation: ellipse at a general angle / log10 space against an independent float evaluation
of the documented quadratic form (events within 1e-9 of the boundary skipped) and the contour.
"""
import json
import math
import os
import warnings

import numpy as np

from harness import core, tlc, fcsgen, loadform
from harness.core import run_driver

import FlowCal.io  # noqa
import FlowCal.gate  # noqa

NONE = -999


class Containers(object):
    def __init__(self):
        self.dir = tlc.scratch('c08_')
        self.cache = {}

    def get(self, events, kind, C, R=8):
        key = (json.dumps(events), kind, C)
        if key in self.cache:
            return self.cache[key]
        if len(self.cache) > 3000:
            self.cache.clear()
        if kind == 'array-int':
            x = np.array(events, dtype=np.int64).reshape(len(events), C)
        elif kind == 'array-uint':
            x = np.array(events, dtype=np.uint16).reshape(len(events), C)
        elif kind == 'array-float':
            x = np.array(events, dtype=np.float64).reshape(len(events), C)
        elif kind == 'sample-float-be':
            path = os.path.join(self.dir, 'f.fcs')
            big = any(isinstance(v, (int, float)) and v == v and v >= R for e in events for v in e)
            fcsgen.write_sample(path, [[float(v) for v in e] for e in events], ['c%d' % (i + 1) for i in range(C)],
                                [4096 if big else R] * C, datatype='F', big=True, pne=['0,0'] * C,
                                pnv=[str(100 * (i + 1)) for i in range(C)])
            with warnings.catch_warnings():
                warnings.simplefilter('ignore')
                x = FlowCal.io.FCSData(loadform.arg(path))
        else:
            path = os.path.join(self.dir, 's.fcs')
            big = any(v >= R for e in events for v in e)
            fcsgen.write_sample(path, events, ['c%d' % (i + 1) for i in range(C)], [4096 if big else R] * C, bits=16 if big else 8, pne=['0,0'] * C,
                                pnv=[str(100 * (i + 1)) for i in range(C)])
            with warnings.catch_warnings():
                warnings.simplefilter('ignore')
                x = FlowCal.io.FCSData(loadform.arg(path))
        self.cache[key] = x
        return x


def render_form(f, nch=2):
    # named: 0 position, 1 name, 2 negative position (counted from the last of the container's nch channels)
    elems = [('c%d' % c) if n == 1 else (c - 1 - nch if n == 2 else c - 1) for c, n in zip(f['xs'], f['named'])]
    if f['t'] == 'absent':
        return None
    if f['t'] in ('pos', 'name'):
        return elems[0]
    return elems


def meta_of(x):
    if not isinstance(x, FlowCal.io.FCSData):
        return None
    return [list(x.channels), x.range(), x.resolution(), x.amplification_type(), x.detector_voltage()]


def judge(call, x, exp):
    """call(full_output) -> result.  Returns (label or None, observed)"""
    obs = {}
    try:
        with warnings.catch_warnings():
            warnings.simplefilter('ignore')
            full = call(True)
            short = call(False)
    except Exception as e:  # noqa
        obs['raises'] = type(e).__name__
        return (None if exp['k'] == 'err' else 'raises:' + obs['raises']), obs
    if exp['k'] == 'err':
        return 'accepted', {'mask': np.asarray(full.mask).tolist()}
    mask = np.asarray(full.mask)
    obs['mask'] = mask.tolist()
    if mask.dtype != bool or mask.ndim != 1:
        return 'mask-type', obs
    if mask.tolist() != [bool(b) for b in exp['mask']]:
        return 'mask', obs
    want = np.asarray(x.view(np.ndarray))[mask]
    g = full.gated_data
    if not (np.asarray(g.view(np.ndarray)).shape == want.shape and np.asarray(g.view(np.ndarray)).tobytes() == np.ascontiguousarray(want).tobytes()):
        return 'gated!=input[mask]', obs
    if type(g) is not type(x) or meta_of(g) != meta_of(x):
        return 'gated-metadata', obs
    if not (type(short) is type(g) and np.ascontiguousarray(short.view(np.ndarray)).tobytes() == np.ascontiguousarray(g.view(np.ndarray)).tobytes()
            and meta_of(short) == meta_of(g)):
        return 'short!=full', obs
    return None, obs


def ellipse_observation(chk, n):
    """logged observation: general angle and log space against an independent evaluation"""
    rnd = np.random.RandomState(chk.seed)
    agree = checked = 0
    contour_ok = True
    for _ in range(n):
        N = 200
        log = bool(rnd.randint(2))
        pts = rnd.uniform(1, 1000, size=(N, 2)) if log else rnd.uniform(-50, 50, size=(N, 2))
        c = np.array([2.0, 2.2]) if log else rnd.uniform(-10, 10, size=2)
        a, b = (rnd.uniform(0.2, 1.0), rnd.uniform(0.2, 1.0)) if log else (rnd.uniform(5, 40), rnd.uniform(5, 40))
        th = rnd.uniform(-math.pi, math.pi)
        out = FlowCal.gate.ellipse(pts, [0, 1], center=c, a=a, b=b, theta=th, log=log, full_output=True)
        P = np.log10(pts) if log else pts
        d = P.astype(np.longdouble) - c.astype(np.longdouble)
        ct, st = np.cos(np.longdouble(th)), np.sin(np.longdouble(th))
        u = d[:, 0] * ct + d[:, 1] * st
        v = -d[:, 0] * st + d[:, 1] * ct
        q = (u / a) ** 2 + (v / b) ** 2
        clear = np.abs(q - 1) > 1e-9
        checked += int(clear.sum())
        agree += int((out.mask[clear] == (q[clear] <= 1)).sum())
        cn = np.asarray(out.contour[0], dtype=np.longdouble)
        if log:
            cn = np.log10(cn)
        dd = cn - c
        uu = dd[:, 0] * ct + dd[:, 1] * st
        vv = -dd[:, 0] * st + dd[:, 1] * ct
        if np.max(np.abs((uu / a) ** 2 + (vv / b) ** 2 - 1)) > 1e-8:
            contour_ok = False
    chk.logged['ellipse_general_angle'] = {'events_checked': checked, 'mask_agreements': agree, 'contour_on_ellipse': contour_ok}
    if agree != checked or not contour_ok:
        chk.violation('C08/ellipse/general-angle-observation', {'n': n, 'seed': chk.seed},
                      'mask = documented quadratic form; contour on the ellipse', chk.logged['ellipse_general_angle'],
                      direction='trace')


def many_events(chk):
    """The gates are predicates of ONE event (Gates.tla evaluates them event by event): the answer for an event does not
    depend on how many others there are.  A block of eight events whose answers are known is repeated to 150,001 and to
    262,145 events (array and loaded sample): the mask is the block's mask, repeated."""
    block = np.array([[100.0, 100.0], [130.0, 90.0], [400.0, 400.0], [100.0, 161.0], [0.0, 0.0], [170.0, 100.0], [99.0, 140.0],
                      [1023.0, 5.0]])
    d = tlc.scratch('c08n_')
    for n in (150001, 262145):
        ev = np.tile(block, (n // len(block) + 1, 1))[:n]
        path = os.path.join(d, 'many.fcs')
        fcsgen.write_sample(path, ev.tolist(), ['c1', 'c2'], [1024, 1024], datatype='F', pne=['0,0', '0,0'])
        with warnings.catch_warnings():
            warnings.simplefilter('ignore')
            conts = {'array': ev, 'sample': FlowCal.io.FCSData(loadform.arg(path))}
            for cname, x in conts.items():
                calls = {'ellipse': lambda x: FlowCal.gate.ellipse(x, [0, 1], center=(100.0, 100.0), a=60.0, b=30.0, theta=0.0, full_output=True).mask,
                         'high_low': lambda x: FlowCal.gate.high_low(x, [0, 1], high=1023.0, low=0.0, full_output=True).mask,
                         'start_end': lambda x: FlowCal.gate.start_end(x, num_start=3, num_end=2, full_output=True).mask}
                # the block's own answers, by the documented predicates (all eight events lie clear of every boundary)
                inside = ((block[:, 0] - 100.0) / 60.0) ** 2 + ((block[:, 1] - 100.0) / 30.0) ** 2 <= 1
                want = {'ellipse': np.tile(inside, n // 8 + 1)[:n],
                        'high_low': np.tile(np.all((block < 1023.0) & (block > 0.0), axis=1), n // 8 + 1)[:n],
                        'start_end': np.array([False] * 3 + [True] * (n - 5) + [False] * 2)}
                for gate, call in calls.items():
                    got = np.asarray(call(x))
                    chk.case(('many', n, cname, gate), nontrivial=True)
                    chk.traces += 1
                    if got.shape != (n,) or not np.array_equal(got, want[gate]):
                        first = int(np.nonzero(got != want[gate])[0][0]) if got.shape == (n,) else -1
                        chk.violation('C08/%s/%s/many-events/mask' % (gate, cname), {'gate': gate, 'events': n, 'container': cname},
                                      'the eight-event block\'s mask, repeated', 'first differing event: %d (of %d)' % (first, n))


def main(chk, replay=None):
    chk.rule = ('GEN: start_end N in 0..4 x counts in -1..5; high_low all events of <=MaxN over {0,1,5,7} x container x 6 '
                'channel forms x thresholds explicit/defaulted; ellipse integer grid points x centre/axes; non-trivial = '
                'mask neither all-true nor all-false, or an error case')
    chk.assumptions = ['TLC, value parser', 'ellipse semi-axes powers of two so the float quadratic form is exact',
                       'general-angle ellipse is a logged observation']
    if replay:
        print(json.dumps(replay, indent=1)[:3000])
        return
    C = Containers()
    neg = False
    plan = [('start_end', 0), ('high_low', 1 if chk.quick else 2), ('ellipse', 1 if chk.quick else 2),
            ('ellipse_log', 1 if chk.quick else 2)]
    if [float(np.log10(v)) for v in (1.0, 10.0, 100.0, 1000.0)] != [0.0, 1.0, 2.0, 3.0]:
        raise tlc.MachineryError('log10 of the powers of ten is not exact on this platform')
    for gate, maxn in plan:
        cfg = ('SPECIFICATION Spec\nCONSTANTS Gate = "%s"\nMaxN = %d\nINVARIANT MaskLength\nINVARIANT StartEndCount\n'
               'INVARIANT HighLowMonotone\nINVARIANT UndefNeverInside\n') % (gate, maxn)
        res = tlc.require_ok(tlc.run_tlc('Gen_C08', cfg, dump=True), 'Gen_C08')
        chk.add_tlc(res, 'Gen_C08[%s]' % gate)
        for st in res.dump_states():
            if st['stage'] != 100:
                continue
            scn, exp = st['scn'], st['out']
            if gate == 'start_end':
                N, kind, ns, ne = scn
                x = C.get([[r + 1, (r * 3) % 7] for r in range(N)], kind, 2)
                call = lambda fo: FlowCal.gate.start_end(x, num_start=ns, num_end=ne, full_output=fo)   # noqa
                label = 'start_end/%s' % kind
            elif gate == 'high_low':
                ev, kind, form, hi, lo = scn
                if any(v == -777 for e in ev for v in e):
                    if kind not in ('array-float', 'sample-float-be'):
                        continue                  # NaN readings exist in floating-point data only
                    ev = [[float('nan') if v == -777 else v for v in e] for e in ev]
                x = C.get([list(e) for e in ev], kind, 2)
                kw = {}
                if hi != NONE:
                    kw['high'] = hi
                if lo != NONE:
                    kw['low'] = lo
                ch = render_form(form)
                call = lambda fo: FlowCal.gate.high_low(x, channels=ch, full_output=fo, **kw)   # noqa
                label = 'high_low/%s/%s/hi=%s,lo=%s' % (kind, form['t'], 'default' if hi == NONE else 'given',
                                                        'default' if lo == NONE else 'given')
            elif gate == 'ellipse_log':
                ev, kind, form, (cx, cy, a, b) = scn
                # exponent codes -> values; a coordinate without logarithm is 0, or negative where the container allows
                def val(code, pos):
                    if code == -1:
                        return -5 if (kind in ('array-float', 'sample-float-be') and pos % 2) else 0
                    return 10 ** code
                x = C.get([[val(c, p) for p, c in enumerate(e)] for e in ev], kind, 3)
                ch = render_form(form, 3)
                call = lambda fo: FlowCal.gate.ellipse(x, ch, center=[cx, cy], a=a, b=b, theta=0, log=True, full_output=fo)   # noqa
                label = 'ellipse-log/%s/%dch' % (kind, len(form['xs']))
            else:
                ev, kind, form, (cx, cy, a, b) = scn
                # the same numbers in the types a parameter table hands out (their squares must not wrap)
                ty = [int, np.uint8, np.int16, float, np.int32][chk.traces % 5]
                if ty is np.uint8 and max(a, b) > 255:
                    ty = np.int16
                a, b = ty(a), ty(b)
                x = C.get([list(e) for e in ev], kind, 3)
                ch = render_form(form, 3)
                call = lambda fo: FlowCal.gate.ellipse(x, ch, center=[cx, cy], a=a, b=b, theta=0, full_output=fo)   # noqa
                label = 'ellipse/%s/%dch' % (kind, len(form['xs']))
            before = (np.asarray(x.view(np.ndarray)).tobytes(), repr(meta_of(x)))
            ch_before = repr(ch) if gate != 'start_end' else None
            lab, obs = judge(call, x, exp)
            if (np.asarray(x.view(np.ndarray)).tobytes(), repr(meta_of(x))) != before:
                lab = 'input-changed'
                C.cache.clear()
            elif gate != 'start_end' and repr(ch) != ch_before:
                lab = 'caller-channel-list-changed'
            if not neg and exp['k'] == 'ok' and len(exp['mask']) >= 1 and lab is None:
                bad = {'k': 'ok', 'mask': [not exp['mask'][0]] + list(exp['mask'][1:])}
                chk.negative_control(judge(call, x, bad)[0] is not None, 'C08 comparator accepts a flipped mask bit')
                neg = True
            m = exp['mask']
            chk.case((gate, json.dumps(scn)), nontrivial=exp['k'] == 'err' or (any(m) and not all(m)),
                     sample={'gate': gate, 'scenario': scn, 'expected': exp, 'observed': obs} if chk.traces % 7001 == 13 else None)
            chk.traces += 1
            if lab is not None:
                chk.violation('C08/%s/%s' % (label, lab), {'gate': gate, 'scenario': scn}, exp, obs)
    ellipse_observation(chk, 20 if chk.quick else 400)
    many_events(chk)
    from harness import session
    session.run(chk, 'C08')          # spec/Session.tla: the property inside whole analysis sessions
    chk.exhaustive = True


if __name__ == '__main__':
    run_driver('C08', main)
