"""C11 - in a batch, a failing row is reported in place and does not affect other rows.

MC    spec/ExcelUI (MC_ExcelUI): the batch loop with its per-row try block and loop-carried locals; TLC checks
      NeverAborted, Isolation (stored result = row-local function RowOutcome of that row), TableOrder, EmptyTable,
      NoStaleRead and termination (Completes) over all tables of <= 3 rows from a small row menu.
GEN   the same machine over 28 row kinds (12 healthy, 16 with one or two documented faults): every table of <= 2
      rows (exhaustive) and sampled tables of 3..5 rows with reorderings is rendered into a samples table over
      generated FCS files and processed by the real process_samples_table + add_samples_stats; per row the outcome
      class must be the specified one, results keyed by row id in table order, error rows shown as 'ERROR:' with
      empty statistics, every healthy row bitwise equal to its single-row run.  Bead tables with every bead-row
      fault are processed by the real process_beads_table likewise.
"""
import json
import multiprocessing as mp
import os
import warnings

import numpy as np
import pandas as pd

from harness import core, tlc, excelworld as xw
from harness.core import run_driver

import FlowCal.excel_ui  # noqa

W = None
SINGLE = {}
BFAULTS = ['missing', 'short', 'fraction', 'unequal']


def table_faults(rows, idx):
    return BFAULTS[idx % 4] if any(r['beads'] == 'failed' for r in rows) else 'none'


def _single_job(key):
    """one row processed alone, in a process of its own that has processed no other row (whatever a run leaves behind in
    the interpreter - caches, module state - is part of 'the other rows' as far as isolation goes)"""
    rj, variant, bf = key
    try:
        t = W.samples_table([json.loads(rj)], variant=variant)
        return key, W.process(t, bf)['S1']
    except Exception as e:  # noqa
        return key, e


def precompute_singles(jobs):
    keys = set()
    for idx, rows, expected in jobs:
        bf, variant = table_faults(rows, idx), idx % 5
        for i, (r, exp) in enumerate(zip(rows, expected)):
            if exp['k'] == 'ok':
                keys.add((json.dumps(r, sort_keys=True), variant + i, bf))
    with mp.get_context('fork').Pool(min(16, os.cpu_count() or 1), maxtasksperchild=1) as pool:
        for key, res in pool.imap_unordered(_single_job, sorted(keys), chunksize=1):
            SINGLE[key] = res
    return len(keys)


def single_run(r, variant, bf):
    key = (json.dumps(r, sort_keys=True), variant, bf)
    if key not in SINGLE:
        t = W.samples_table([r], variant=variant)
        res = W.process(t, bf)
        SINGLE[key] = res['S1']
    return SINGLE[key]


def check_table(job):
    idx, rows, expected = job
    bf = table_faults(rows, idx)
    variant = idx % 5
    t = W.samples_table(rows, variant=variant)
    out = {'idx': idx, 'labels': [], 'obs': []}
    try:
        res = W.process(t, bf, hdr=(idx // 9 + idx) % 3)       # (the beads table's MEF headers in one of three accepted spellings)
    except Exception as e:  # noqa
        out['labels'].append(('aborted/' + type(e).__name__, -1))
        out['obs'] = ['batch aborted: %s: %s' % (type(e).__name__, str(e)[:100])]
        return out
    if list(res.keys()) != list(t.index):
        out['labels'].append(('keys-or-order', -1))
    for i, (r, exp) in enumerate(zip(rows, expected)):
        rid = 'S%d' % (i + 1)
        v = res.get(rid)
        if isinstance(v, FlowCal.excel_ui.ExcelUIException):
            kind = xw.classify_error(v)
            out['obs'].append('err:' + kind)
            if exp['k'] != 'err':
                out['labels'].append(('healthy-row-reported-as-error/' + kind, i))
            elif kind not in xw.ACCEPT.get(exp['err'], {exp['err']}):
                out['labels'].append(('wrong-error/%s-for-%s' % (kind, exp['err']), i))
        elif v is None:
            out['obs'].append('missing')
            out['labels'].append(('row-missing', i))
        else:
            out['obs'].append('ok:%d events' % v.shape[0])
            if exp['k'] != 'ok':
                out['labels'].append(('faulty-row-processed/' + exp['err'], i))
            else:
                alone = single_run(r, variant + i, bf)
                d = 'single-run-failed' if isinstance(alone, Exception) else xw.same_sample(v, alone)
                if d:
                    out['labels'].append(('differs-from-single-row-run/' + d, i))
    # output table
    try:
        with warnings.catch_warnings():
            warnings.simplefilter('ignore')
            FlowCal.excel_ui.add_samples_stats(t, res)
        for i, exp in enumerate(expected):
            rid = 'S%d' % (i + 1)
            note = t.loc[rid, 'Analysis Notes']
            statcols = [c for c in t.columns if c.endswith((' Mean', ' Median', ' Std', ' IQR'))]
            if isinstance(res.get(rid), FlowCal.excel_ui.ExcelUIException):
                if not str(note).startswith('ERROR:'):
                    out['labels'].append(('error-row-without-ERROR-note', i))
                if not (pd.isnull(t.loc[rid, 'Number of Events']) and all(pd.isnull(t.loc[rid, c]) for c in statcols)):
                    out['labels'].append(('error-row-with-statistics', i))
            else:
                if str(note).startswith('ERROR:') or pd.isnull(t.loc[rid, 'Number of Events']):
                    out['labels'].append(('healthy-row-without-count', i))
                # the output row equals the row of the single-row run (notes and every statistics column)
                ts = W.samples_table([rows[i]], variant=variant + i, style=(variant % 4 == 3))
                rs = {'S1': single_run(rows[i], variant + i, bf)}
                if not isinstance(rs['S1'], Exception):
                    with warnings.catch_warnings():
                        warnings.simplefilter('ignore')
                        FlowCal.excel_ui.add_samples_stats(ts, rs)
                    for c in ts.columns:
                        a, b = t.loc[rid, c], ts.loc['S1', c]
                        if not ((pd.isnull(a) and pd.isnull(b)) or a == b):
                            out['labels'].append(('output-row-differs-from-single-row-run/' + ('notes' if c == 'Analysis Notes' else 'column'), i))
                            break
        # the histogram rows of every healthy row equal those of its single-row run (tables with >= 2 healthy float rows)
        healthy = [i for i, r in enumerate(rows) if not isinstance(res.get('S%d' % (i + 1)), Exception) and res.get('S%d' % (i + 1)) is not None]
        if len([i for i in healthy if rows[i]['file'] == 'ok-float']) >= 2:
            with warnings.catch_warnings():
                warnings.simplefilter('ignore')
                hb = FlowCal.excel_ui.generate_histograms_table(t, res)
                for i in healthy:
                    rid = 'S%d' % (i + 1)
                    ts = W.samples_table([rows[i]], variant=variant + i, style=(variant % 4 == 3))
                    hs = FlowCal.excel_ui.generate_histograms_table(ts, {'S1': single_run(rows[i], variant + i, bf)})
                    a = hb.loc[rid] if rid in hb.index.get_level_values(0) else None
                    b = hs.loc['S1'] if 'S1' in hs.index.get_level_values(0) else None
                    same = (a is None and b is None) or (a is not None and b is not None and a.shape == b.shape and
                                                         np.array_equal(np.nan_to_num(a.values.astype(float), nan=-1.0),
                                                                        np.nan_to_num(b.values.astype(float), nan=-1.0)))
                    if not same:
                        out['labels'].append(('histogram-rows-differ-from-single-row-run', i))
    except Exception as e:  # noqa
        out['labels'].append(('stats-aborted/' + type(e).__name__, -1))
    return out


def check_run(job):
    """the same table through the workflow's entry point: workbook in, excel_ui.run(), output workbook out"""
    idx, rows, expected = job
    import shutil
    variant = idx % 5
    d = os.path.join(W.dir, 'c11run_%d' % idx)
    os.makedirs(d, exist_ok=True)
    out = {'idx': idx, 'labels': [], 'obs': []}
    try:
        for f in os.listdir(W.dir):
            if f.endswith('.fcs') and not os.path.exists(os.path.join(d, f)):
                os.symlink(os.path.join(W.dir, f), os.path.join(d, f))
        bt = W.beads_table('none')          # reference rows incl. beads of another instrument / amplifier / voltage
        t = W.samples_table(rows, variant=variant)
        inp = os.path.join(d, 'experiment.xlsx')
        with pd.ExcelWriter(inp, engine='openpyxl') as wr:
            W.instruments.reset_index().to_excel(wr, sheet_name='Instruments', index=False)
            bt.reset_index().rename(columns={'index': 'ID'}).to_excel(wr, sheet_name='Beads', index=False)
            t.reset_index().rename(columns={'index': 'ID'}).to_excel(wr, sheet_name='Samples', index=False)
        np.random.seed(3)
        try:
            with warnings.catch_warnings():
                warnings.simplefilter('ignore')
                FlowCal.excel_ui.run(input_path=inp, verbose=False, plot=False, hist_sheet=False)
        except Exception as e:  # noqa
            out['labels'].append(('run/aborted/' + type(e).__name__, -1))
            out['obs'] = ['run aborted: %s: %s' % (type(e).__name__, str(e)[:100])]
            return out
        o = pd.read_excel(os.path.join(d, 'experiment_output.xlsx'), sheet_name='Samples', engine='openpyxl')
        if [str(x) for x in o['ID']] != ['S%d' % (i + 1) for i in range(len(rows))]:
            out['labels'].append(('run/keys-or-order', -1))
            return out
        for i, exp in enumerate(expected):
            note = o.loc[i, 'Analysis Notes']
            note = '' if pd.isnull(note) else str(note)
            if note.startswith('ERROR:'):
                kind = xw.classify_error(note)
                out['obs'].append('err:' + kind)
                if exp['k'] != 'err':
                    out['labels'].append(('run/healthy-row-reported-as-error/' + kind, i))
                elif kind not in xw.ACCEPT.get(exp['err'], {exp['err']}):
                    out['labels'].append(('run/wrong-error/%s-for-%s' % (kind, exp['err']), i))
                if not pd.isnull(o.loc[i, 'Number of Events']):
                    out['labels'].append(('run/error-row-with-statistics', i))
            else:
                out['obs'].append('ok:%s events' % o.loc[i, 'Number of Events'])
                if exp['k'] != 'ok':
                    out['labels'].append(('run/faulty-row-processed/' + exp['err'], i))
                elif pd.isnull(o.loc[i, 'Number of Events']):
                    out['labels'].append(('run/healthy-row-without-count', i))
    finally:
        shutil.rmtree(d, ignore_errors=True)
    return out


def check_beads_table(job):
    idx, faults = job
    t_full = None
    rows = []
    for j, f in enumerate(faults):
        bt = W.beads_table(f, rows=('BFAIL',)).rename(index={'BFAIL': 'B%d' % (j + 1)})
        rows.append(bt)
    t = pd.concat(rows) if rows else W.beads_table('none', rows=('BOK',)).iloc[0:0]
    t.index.name = 'ID'
    out = {'idx': idx, 'labels': [], 'obs': []}
    np.random.seed(5)
    try:
        with warnings.catch_warnings():
            warnings.simplefilter('ignore')
            bs, fx = FlowCal.excel_ui.process_beads_table(t, W.instruments, base_dir=W.dir, verbose=False, plot=False)
    except Exception as e:  # noqa
        out['labels'].append(('aborted/' + type(e).__name__, -1))
        return out
    want = {'none': None, 'missing': 'file-not-found', 'short': 'fewer-than-400-events', 'fraction': 'gate-fraction',
            'unequal': 'unequal-mef-counts'}
    if list(bs.keys()) != list(t.index):
        out['labels'].append(('keys-or-order', -1))
    for j, f in enumerate(faults):
        rid = 'B%d' % (j + 1)
        v = bs.get(rid)
        if isinstance(v, FlowCal.excel_ui.ExcelUIException):
            k = xw.classify_error(v)
            out['obs'].append('err:' + k)
            if want[f] is None:
                out['labels'].append(('healthy-beads-row-reported-as-error/' + k, j))
            elif k != want[f]:
                out['labels'].append(('wrong-error/%s-for-%s' % (k, want[f]), j))
            if fx.get(rid) is not None:
                out['labels'].append(('failed-row-has-transformation', j))
        else:
            out['obs'].append('ok')
            if want[f] is not None:
                out['labels'].append(('faulty-beads-row-processed/' + want[f], j))
            else:
                ref = W.beads('none')[1]['BFAIL']
                d = xw.same_sample(v, ref)
                if d:
                    out['labels'].append(('beads-differs-from-single-row-run/' + d, j))
    try:
        with warnings.catch_warnings():
            warnings.simplefilter('ignore')
            FlowCal.excel_ui.add_beads_stats(t, bs)
        for j, f in enumerate(faults):
            rid = 'B%d' % (j + 1)
            if want[f] is not None and not (str(t.loc[rid, 'Analysis Notes']).startswith('ERROR:') and pd.isnull(t.loc[rid, 'Number of Events'])):
                out['labels'].append(('error-row-rendering', j))
    except Exception as e:  # noqa
        out['labels'].append(('stats-aborted/' + type(e).__name__, -1))
    return out


def main(chk, replay=None):
    global W
    chk.rule = ('GEN: tables built from 28 row kinds (12 healthy x units, 16 with documented faults incl. two-fault rows): all '
                'tables of 0..2 rows; sampled tables of 3..5 rows; bead tables of 0..2 rows over 5 bead-row states; non-trivial = '
                'table with at least one faulty row')
    chk.assumptions = ['TLC, value parser', 'error kinds recognised by the message patterns in excelworld.ERR_PATTERNS',
                       'where two documented checks may fire first, either message is accepted (excelworld.ACCEPT)']
    if replay:
        print(json.dumps(replay, indent=1, default=core.jdefault)[:3000])
        return
    inv = 'INVARIANT NeverAborted\nINVARIANT Isolation\nINVARIANT TableOrder\nINVARIANT EmptyTable\nINVARIANT NoStaleRead\n'
    res = tlc.run_tlc('MC_ExcelUI', 'SPECIFICATION Spec\nCONSTANTS RowKinds <- SmallRows\nMaxRows = 3\n' + inv)
    if not res.ok:
        raise tlc.MachineryError('MC_ExcelUI: %s\n%s' % (res.violated, res.stdout[-1500:]))
    chk.add_tlc(res, 'MC_ExcelUI[small rows, <=3]')
    res = tlc.require_ok(tlc.run_tlc('MC_ExcelUI', 'SPECIFICATION Spec\nCONSTANTS RowKinds <- AllRows\nMaxRows = 2\n' + inv, dump=True),
                         'MC_ExcelUI all rows')
    chk.add_tlc(res, 'MC_ExcelUI[all rows, <=2]')
    tables = [(st['table'], st['results']) for st in res.dump_states() if st['pc'] == 'Return']
    tables.sort(key=lambda tr: json.dumps(tr[0], sort_keys=True))
    # longer tables with reorderings
    n_sim = 60 if chk.quick else 1500
    res3 = tlc.run_tlc('MC_ExcelUI', 'SPECIFICATION Spec\nCONSTANTS RowKinds <- AllRows\nMaxRows = 5\n' + inv,
                       simulate=(n_sim, 60), workers=1, seed=chk.seed)
    if res3.violated or 'Error' in res3.stdout:
        raise tlc.MachineryError('MC_ExcelUI simulate: ' + res3.stdout[-1500:])
    chk.add_tlc(res3, 'MC_ExcelUI[all rows, <=5, simulate]')
    seen = set()
    for beh in res3.sim_behaviours():
        fin = [s for _, s in beh if s.get('pc') == 'Return']
        if fin and len(fin[-1]['table']) >= 3:
            k = json.dumps(fin[-1]['table'], sort_keys=True)
            if k not in seen:
                seen.add(k)
                tables.append((fin[-1]['table'], fin[-1]['results']))
                tables.append((fin[-1]['table'][::-1], fin[-1]['results'][::-1]))       # row order reversed
    if chk.quick:
        def err_then_float3(tr):
            rows, exp = tr
            return len(rows) == 2 and exp[0]['k'] == 'err' and exp[1]['k'] == 'ok' and rows[1]['file'] == 'ok-float' and \
                rows[1]['units'][2] != 'empty'
        pick = [i for i in range(len(tables)) if (i + chk.seed) % 9 == 0 or len(tables[i][0]) >= 3 or len(tables[i][0]) == 0
                or (err_then_float3(tables[i]) and (i + chk.seed) % 3 == 0)]
    else:
        pick = list(range(len(tables)))
    W = xw.World()
    for bf in ['none'] + BFAULTS:
        try:
            W.beads(bf)
        except Exception as e:  # noqa
            chk.violation('C11/beads/aborted/%s/%s' % (bf, type(e).__name__), {'beads_fault': bf, 'table': 'reference beads table'},
                          'row error recorded, batch continues', '%s: %s' % (type(e).__name__, str(e)[:120]))
            # fall back so that the sample-table checks can still run: drop the faulty row
            t = W.beads_table(bf, rows=('BOK', 'BOTHER', 'BAMP', 'BVOLT', 'BNOCURVE'))
            np.random.seed(3)
            with warnings.catch_warnings():
                warnings.simplefilter('ignore')
                bs, fx, mo = FlowCal.excel_ui.process_beads_table(t, W.instruments, base_dir=W.dir, full_output=True)
                FlowCal.excel_ui.add_beads_stats(t, bs, mo)
            fx['BFAIL'] = None
            t.loc['BFAIL'] = t.loc['BOK']
            W._beads_cache[(bf, 'A')] = (t, bs, fx, mo)
    jobs = [(i, tables[i][0], tables[i][1]) for i in pick]
    bjobs = [(i, list(f)) for i, f in enumerate([()] + [(a,) for a in ['none'] + BFAULTS] +
                                                [(a, b) for a in ['none'] + BFAULTS for b in ['none'] + BFAULTS])]
    if chk.quick:
        bjobs = [j for j in bjobs if len(j[1]) < 2 or (j[0] + chk.seed) % 5 == 0]
    # through run(): every one-row table (each row kind once) and, in thorough, the two-row tables as well; only
    # tables whose beads rows are the reference ones (no beads fault injected)
    rjobs = [j for j in [(i, tables[i][0], tables[i][1]) for i in range(len(tables))]
             if table_faults(j[1], j[0]) == 'none' and (len(j[1]) == 1 or (not chk.quick and len(j[1]) == 2))]
    chk.extra['single_row_references_in_fresh_processes'] = precompute_singles(jobs)
    with mp.get_context('fork').Pool(min(16, os.cpu_count() or 1)) as pool:
        outs = pool.map(check_table, jobs, chunksize=2)
        bouts = pool.map(check_beads_table, bjobs, chunksize=1)
        routs = pool.map(check_run, rjobs, chunksize=1)
    for (i, rows, exp), o in zip(rjobs, routs):
        chk.case(('run', json.dumps(rows, sort_keys=True)), nontrivial=any(e['k'] == 'err' for e in exp))
        chk.traces += 1
        for lab, r in o['labels']:
            chk.violation('C11/samples/' + lab, {'table': rows, 'row': r, 'through': 'excel_ui.run'},
                          [e['k'] + ':' + e['err'] for e in exp], o['obs'])
    neg = False
    for (i, rows, exp), o in zip(jobs, outs):
        chk.case(('t', json.dumps(rows, sort_keys=True)), nontrivial=any(e['k'] == 'err' for e in exp),
                 sample={'table': rows, 'expected': [e['k'] + ':' + e['err'] for e in exp], 'observed': o['obs']} if len(chk.samples) < 3 and len(rows) == 2 else None)
        chk.traces += 1
        for lab, r in o['labels']:
            chk.violation('C11/samples/' + lab, {'table': rows, 'row': r, 'beads_fault': table_faults(rows, i)},
                          [e['k'] + ':' + e['err'] for e in exp], o['obs'])
        if not neg and len(rows) == 2 and exp[0]['k'] != exp[1]['k'] and not o['labels']:
            chk.negative_control(o['obs'][0][:2] != o['obs'][1][:2], 'C11 outcome projection cannot tell an error row from a healthy one')
            neg = True
    for (i, faults), o in zip(bjobs, bouts):
        chk.case(('b', json.dumps(faults)), nontrivial=any(f != 'none' for f in faults))
        chk.traces += 1
        for lab, r in o['labels']:
            chk.violation('C11/beads/' + lab, {'beads_rows': faults, 'row': r}, faults, o['obs'])
    chk.exhaustive = not chk.quick


if __name__ == '__main__':
    run_driver('C11', main)
