"""Run TLC and read back what it produced.

Three uses (DESIGN.md section 2.1):
  MC    - run_tlc(...) and look at .ok / .violated / .states / .distinct / .coverage
  GEN   - run_tlc(..., dump=True)  -> .dump_states() yields one dict per reachable state
          run_tlc(..., simulate=(num, depth)) -> .sim_behaviours() yields lists of (action, state)
  TRACE - run_tlc(..., env={'TRACE_FILE': path}) on a Trace_* module; the verdict is an invariant

Everything runs in a scratch directory that the caller owns (see Scratch below); nothing is
written under /verif except evidence and out/replay.
"""
import os
import re
import shutil
import subprocess
import tempfile
import time
import atexit

SPEC_DIR = os.path.join(os.path.dirname(os.path.dirname(os.path.abspath(__file__))), 'spec')
JAVA_CP = '/opt/veriftools/tla/tla2tools.jar:/opt/veriftools/tla/CommunityModules-deps.jar'


class MachineryError(Exception):
    """The checking machinery itself failed (exit code 2, never a VIOLATION)."""


# --------------------------------------------------------------------------- scratch

_scratch_dirs = []


def scratch(prefix='fcv_'):
    base = '/dev/shm' if os.path.isdir('/dev/shm') and os.access('/dev/shm', os.W_OK) else None
    d = tempfile.mkdtemp(prefix=prefix, dir=base)
    _scratch_dirs.append(d)
    return d


def _cleanup():
    for d in _scratch_dirs:
        shutil.rmtree(d, ignore_errors=True)


atexit.register(_cleanup)

# --------------------------------------------------------------------------- TLA+ value parser

_TOK = re.compile(r'''
    (?P<ws>\s+)
  | (?P<str>"(?:[^"\\]|\\.)*")
  | (?P<int>-?\d+)
  | (?P<op>\|->|:>|@@|<<|>>|[\[\]\{\}\(\),])
  | (?P<id>[A-Za-z_][A-Za-z0-9_!]*)
''', re.X)


class TSet(list):
    """A TLA+ set (kept as a list in TLC's print order)."""


def _tokens(s):
    pos = 0
    n = len(s)
    out = []
    while pos < n:
        m = _TOK.match(s, pos)
        if not m:
            raise MachineryError('cannot tokenise TLA+ value at %r' % s[pos:pos + 40])
        pos = m.end()
        k = m.lastgroup
        if k == 'ws':
            continue
        out.append((k, m.group(k)))
    return out


def _unescape(s):
    return s[1:-1].replace('\\"', '"').replace('\\\\', '\\').replace('\\n', '\n').replace('\\t', '\t')


def _parse(toks, i):
    k, v = toks[i]
    if k == 'int':
        return int(v), i + 1
    if k == 'str':
        return _unescape(v), i + 1
    if k == 'id':
        if v == 'TRUE':
            return True, i + 1
        if v == 'FALSE':
            return False, i + 1
        return v, i + 1          # model value
    if v == '<<':
        i += 1
        out = []
        while toks[i][1] != '>>':
            x, i = _parse(toks, i)
            out.append(x)
            if toks[i][1] == ',':
                i += 1
        return out, i + 1
    if v == '{':
        i += 1
        out = TSet()
        while toks[i][1] != '}':
            x, i = _parse(toks, i)
            out.append(x)
            if toks[i][1] == ',':
                i += 1
        return out, i + 1
    if v == '[':
        i += 1
        out = {}
        while toks[i][1] != ']':
            name = toks[i][1]
            assert toks[i + 1][1] == '|->', toks[i:i + 3]
            x, i = _parse(toks, i + 2)
            out[name] = x
            if toks[i][1] == ',':
                i += 1
        return out, i + 1
    if v == '(':
        i += 1
        out = {}
        while True:
            kx, i = _parse(toks, i)
            assert toks[i][1] == ':>', toks[i]
            vx, i = _parse(toks, i + 1)
            out[kx if not isinstance(kx, list) else tuple(kx)] = vx
            if toks[i][1] == '@@':
                i += 1
                continue
            assert toks[i][1] == ')', toks[i]
            return out, i + 1
    raise MachineryError('unexpected token %r' % (toks[i],))


def parse_value(s):
    toks = _tokens(s)
    v, i = _parse(toks, 0)
    if i != len(toks):
        raise MachineryError('trailing tokens in TLA+ value: %r' % (toks[i:i + 5],))
    return v


_CONJ = re.compile(r'^/\\ (\w+) = ', re.M)


def parse_state_block(block):
    """'/\\ a = ...\n/\\ b = ...' (values may wrap over lines) -> dict."""
    out = {}
    ms = list(_CONJ.finditer(block))
    if not ms:
        # single-variable states print as 'x = value'
        m = re.match(r'^\s*(\w+) = ', block)
        if m:
            out[m.group(1)] = parse_value(block[m.end():])
        return out
    for j, m in enumerate(ms):
        end = ms[j + 1].start() if j + 1 < len(ms) else len(block)
        out[m.group(1)] = parse_value(block[m.end():end])
    return out


def iter_dump(path):
    """Yield one dict per state of a `-dump` file."""
    with open(path) as f:
        buf = []
        for line in f:
            if line.startswith('State '):
                if buf:
                    yield parse_state_block(''.join(buf))
                buf = []
            elif line.strip():
                buf.append(line)
        if buf:
            yield parse_state_block(''.join(buf))


def _parse_chunk(blocks):
    return [parse_state_block(b) for b in blocks]


def iter_dump_parallel(path, nproc=None, chunk=500):
    """Same as iter_dump but parses with a process pool (order preserved)."""
    import multiprocessing as mp
    txt = open(path).read()
    blocks = re.split(r'^State \d+:.*\n', txt, flags=re.M)[1:]
    del txt
    chunks = [blocks[i:i + chunk] for i in range(0, len(blocks), chunk)]
    ctx = mp.get_context('fork')
    with ctx.Pool(nproc or min(16, os.cpu_count() or 1)) as pool:
        for part in pool.imap(_parse_chunk, chunks):
            for st in part:
                yield st


_SIM_STATE = re.compile(r'^STATE_\d+ ==\s*$', re.M)


def parse_sim_file(path):
    """A `-simulate file=...` behaviour file -> list of (action_name, state_dict)."""
    txt = open(path).read()
    out = []
    # blocks look like:  \* <Action line ...>\nSTATE_n ==\n/\ v = ...\n\n
    parts = re.split(r'^(?=\\\* )', txt, flags=re.M)
    for p in parts:
        m = re.match(r'\\\* <?(\w+)', p)
        if not m:
            continue
        ms = _SIM_STATE.search(p)
        if not ms:
            continue
        body = p[ms.end():]
        body = body.split('\n\n')[0]
        action = m.group(1)
        out.append((action, parse_state_block(body.strip() + '\n')))
    return out


# --------------------------------------------------------------------------- running TLC

class TLCResult(object):
    def __init__(self):
        self.ok = False
        self.violated = None          # name of violated invariant / property, if any
        self.error_text = ''
        self.generated = 0
        self.distinct = 0
        self.depth = 0
        self.wall = 0.0
        self.stdout = ''
        self.workdir = None
        self.dump_path = None
        self.sim_dir = None
        self.coverage = {}            # action name -> (distinct, total)
        self.error_state = None       # last state of the counterexample, parsed
        self.error_trace = []
        self.cmd = ''

    def dump_states(self, parallel=True):
        if parallel and os.path.getsize(self.dump_path) > 2000000:
            return iter_dump_parallel(self.dump_path)
        return iter_dump(self.dump_path)

    def sim_behaviours(self):
        for fn in sorted(os.listdir(self.sim_dir)):
            yield parse_sim_file(os.path.join(self.sim_dir, fn))


def run_tlc(module, cfg_text, workers=16, dump=False, simulate=None, coverage=False,
            env=None, timeout=3600, extra_modules=(), deadlock=False, seed=0,
            java_opts=(), workdir=None, spec_dir=SPEC_DIR, heap='8g'):
    """Run TLC on spec/<module>.tla with the given cfg text.  All .tla files of spec/
    (and spec/trace, spec/mc) are copied flat into a scratch directory."""
    wd = workdir or scratch('tlc_')
    for root in (spec_dir, os.path.join(spec_dir, 'mc'), os.path.join(spec_dir, 'trace'),
                 os.path.join(spec_dir, 'gen')):
        if os.path.isdir(root):
            for fn in os.listdir(root):
                if fn.endswith('.tla'):
                    shutil.copy(os.path.join(root, fn), os.path.join(wd, fn))
    for p in extra_modules:
        shutil.copy(p, wd)
    cfg = os.path.join(wd, module + '.cfg')
    with open(cfg, 'w') as f:
        f.write(cfg_text)
    cmd = ['java', '-XX:+UseParallelGC', '-Xmx' + heap, '-Xss128m'] + list(java_opts) + \
          ['-cp', JAVA_CP, 'tlc2.TLC', '-workers', str(workers), '-metadir', os.path.join(wd, 'meta'),
           '-noGenerateSpecTE', '-config', cfg]
    if not deadlock:
        cmd += ['-deadlock']
    res = TLCResult()
    res.workdir = wd
    if dump:
        res.dump_path = os.path.join(wd, 'dump.dump')
        cmd += ['-dump', os.path.join(wd, 'dump')]
    if simulate:
        num, depth = simulate
        res.sim_dir = os.path.join(wd, 'sim')
        os.makedirs(res.sim_dir, exist_ok=True)
        cmd += ['-simulate', 'file=%s,num=%d' % (os.path.join(res.sim_dir, 'tr'), num),
                '-depth', str(depth), '-seed', str(seed)]
    if coverage:
        cmd += ['-coverage', '1']
    cmd += [os.path.join(wd, module + '.tla')]
    e = dict(os.environ)
    if env:
        e.update({k: str(v) for k, v in env.items()})
    res.cmd = ' '.join(cmd)
    t0 = time.time()
    try:
        p = subprocess.run(cmd, cwd=wd, env=e, stdout=subprocess.PIPE, stderr=subprocess.STDOUT,
                           timeout=timeout, universal_newlines=True)
    except subprocess.TimeoutExpired as ex:
        raise MachineryError('TLC timed out after %ss on %s' % (timeout, module))
    res.wall = time.time() - t0
    out = p.stdout
    res.stdout = out
    m = re.search(r'(\d+) states generated, (\d+) distinct states found', out)
    if m:
        res.generated, res.distinct = int(m.group(1)), int(m.group(2))
    m = re.search(r'depth of the complete state graph search is (\d+)', out)
    if m:
        res.depth = int(m.group(1))
    if simulate:
        m = re.search(r'The number of states generated: (\d+)', out)
        if m:
            res.generated = res.distinct = int(m.group(1))
    m = re.search(r'Invariant (\w+) is violated', out)
    if m:
        res.violated = m.group(1)
    m2 = re.search(r'(?:Action|Temporal) propert(?:y|ies) (\w+)? ?(?:is|were) violated', out)
    if m2 and not res.violated:
        res.violated = m2.group(1) or 'property'
    if 'Temporal properties were violated' in out and not res.violated:
        res.violated = 'temporal'
    if res.violated:
        res.error_trace = _parse_error_trace(out)
        if res.error_trace:
            res.error_state = res.error_trace[-1]
    res.ok = (('No error has been found' in out) or (simulate and p.returncode == 0 and 'Error' not in out)) \
        and res.violated is None
    if not res.ok and res.violated is None:
        res.error_text = out[-4000:]
    if coverage:
        for m in re.finditer(r'<(\w+) line \d+, col \d+ to line \d+, col \d+ of module (\w+)>: (\d+):(\d+)', out):
            res.coverage[m.group(1)] = (int(m.group(3)), int(m.group(4)))
    return res


def _parse_error_trace(out):
    states = []
    blocks = re.split(r'^State \d+: .*$', out, flags=re.M)
    for b in blocks[1:]:
        body = b.split('\n\n')[0]
        try:
            states.append(parse_state_block(body.strip() + '\n'))
        except Exception:
            states.append({})
    return states


def require_ok(res, what):
    if not res.ok:
        raise MachineryError('%s: TLC did not finish cleanly (violated=%s)\n%s' %
                             (what, res.violated, res.error_text or res.stdout[-3000:]))
    return res


def sany_ok(module):
    p = subprocess.run(['java', '-cp', JAVA_CP, 'tla2sany.SANY', module], stdout=subprocess.PIPE,
                       stderr=subprocess.STDOUT, universal_newlines=True)
    return p.returncode == 0, p.stdout
