"""C16 - truncated or inconsistent FCS files fail loudly instead of yielding other data.

MC+GEN spec/FCSBytes via spec/gen/Gen_C01 (fault slices): for each layout the environment action Damage
picks a truncation at every byte offset, the empty file, or a single-field corruption ($TOT, $PAR, $PnB,
HEADER text/data offsets, TEXT data offsets; each to v-1, v+1, v div 2, 2v+3).  TLC checks LoudFailure
on the spec reader (refused, or intact data and keywords, or the documented self-consistent class) and
dumps (bytes, outcome); every damaged file is loaded with the real FCSFile / FCSData and must behave
exactly as the spec reader says.
"""
import json
import os

from harness import core, tlc, fcsproj
from harness.core import run_driver
from harness.conf_C01 import compare, mc_reader


OPT_SCRIPT = """
import sys, json, warnings
warnings.simplefilter('ignore')
import FlowCal.io
out = []
for p in sys.argv[1:]:
    try:
        FlowCal.io.FCSFile(p)
        out.append(p)
    except Exception:
        pass
print('LOADED=' + json.dumps(out))
"""


def optimised_interpreter(chk, refused):
    """Files the library refuses must be refused whatever the interpreter's switches: the same loads under `python -O`
    (assert statements compiled away).  refused: list of (bytes, layout, fault) of files just seen refused."""
    import subprocess
    import sys
    if not refused:
        raise tlc.MachineryError('C16: no refused file to load under python -O')
    d = tlc.scratch('c16o_')
    paths = []
    for i, (b, lay, flt) in enumerate(refused):
        p = os.path.join(d, '%05d.fcs' % i)
        with open(p, 'wb') as f:
            f.write(bytes(b))
        paths.append(p)
    env = dict(os.environ, PYTHONPATH=core.REPO, PYTHONOPTIMIZE='1')
    loaded = []
    for k in range(0, len(paths), 2000):
        pr = subprocess.run([sys.executable, '-O', '-c', OPT_SCRIPT] + paths[k:k + 2000], env=env, cwd=d, stdout=subprocess.PIPE,
                            stderr=subprocess.PIPE, universal_newlines=True, timeout=1800)
        m = [ln for ln in pr.stdout.splitlines() if ln.startswith('LOADED=')]
        if pr.returncode != 0 or not m:
            raise tlc.MachineryError('python -O loader failed: ' + pr.stderr[-800:])
        loaded += json.loads(m[0][7:])
    for p in loaded:
        b, lay, flt = refused[int(os.path.basename(p)[:5])]
        fk = flt['k'] if flt['k'] != 'field' else 'field:%s:%s' % (flt['field'], flt['how'])
        chk.violation('C16/%s/refused-only-by-an-assert-statement' % fk, {'layout': lay, 'fault': flt, 'bytes': b, 'interpreter': 'python -O'},
                      'refused', 'loaded under python -O (the check that refuses this file is an assert statement)')
    chk.extra['refusals_repeated_under_python_O'] = len(paths)
    for _ in paths:
        chk.traces += 1


def main(chk, replay=None):
    chk.rule = ('GEN: layouts x {truncation at every offset, empty file, 10 fields x 4 corruptions}; non-trivial = every '
                'damaged file (distinct by layout and fault); exhaustive per file')
    chk.assumptions = ['TLC, TLA+ value parser', 'damaged bytes are produced by the spec writer + fault model',
                       'segment order HEADER, TEXT, [sTEXT], DATA as in the C01 layouts']
    if replay:
        sc = replay['scenario']
        p = os.path.join(tlc.scratch('rp_'), 'r.fcs')
        open(p, 'wb').write(bytes(sc['bytes']))
        print('observed now:', json.dumps(fcsproj.load(p), default=core.jdefault)[:1500])
        print('expected:', json.dumps(replay['expected'])[:1500])
        return
    mc_reader(chk)
    sl = 'faults-quick' if chk.quick else 'faults-full'
    cfg = 'SPECIFICATION Spec\nCONSTANT Slice = "%s"\nINVARIANT LoudFailure\n' % sl
    res = tlc.run_tlc('Gen_C01', cfg, dump=True, coverage=False)
    if res.violated:
        raise tlc.MachineryError('LoudFailure fails on the specification reader itself: %s' % json.dumps(res.error_state)[:1500])
    tlc.require_ok(res, 'Gen_C01[%s]' % sl)
    chk.add_tlc(res, 'Gen_C01[%s]' % sl)
    d = tlc.scratch('c16_')
    path = os.path.join(d, 'g.fcs')
    neg = False
    kinds = {}
    n = 0
    refused = []
    for st in res.dump_states():
        out = st['out']
        flt = st['scn']['flt']
        if out['k'] == 'todo' or flt['k'] == 'pending':
            continue
        with open(path, 'wb') as f:
            f.write(bytes(st['file']))
        obs = fcsproj.load(path)
        dlt = compare(out, obs)
        if not neg and out['k'] == 'refused':
            chk.negative_control(compare({'k': 'ok', 'N': 0, 'D': 1, 'data': [], 'text': []}, obs) is not None,
                                 'C16 comparator accepts a refusal as a load')
            neg = True
        lay = st['scn']['lay']
        if obs.get('k') == 'refused' and out['k'] == 'refused' and (not chk.quick or (n + chk.seed) % 4 == 0):
            refused.append((st['file'], lay, flt))
        fk = flt['k'] if flt['k'] != 'field' else 'field:%s:%s' % (flt['field'], flt['how'])
        kinds[(flt['k'], out['k'])] = kinds.get((flt['k'], out['k']), 0) + 1
        chk.case(('f', json.dumps(lay), json.dumps(flt)), nontrivial=True,
                 sample={'layout': lay, 'fault': flt, 'file_len': len(st['file']),
                         'expected': {k: out[k] for k in ('k', 'why', 'N', 'D')},
                         'observed': {k: obs.get(k) for k in ('k', 'exc', 'N', 'D')}} if n % 997 == 5 else None)
        chk.traces += 1
        n += 1
        if dlt is None and st.get('cls') == 'analysis-loss':
            # the real reader does what the specification reader does - and that outcome is the named deviation
            # AnalysisLoss of Gen_C01.tla: intact events and TEXT, but the ANALYSIS keywords of the intact file are gone
            chk.violation('C16/truncated-analysis-read-silently', {'layout': lay, 'fault': flt, 'bytes': st['file']},
                          'refused, or the ANALYSIS keywords of the intact file',
                          {'k': obs.get('k'), 'analysis_pairs_read': len(obs.get('analysis', [])), 'warnings': obs.get('warn')})
        if dlt is None and st.get('cls') == 'keyword-skipped':
            # named deviation KeywordSkipped of Gen_C01.tla
            chk.violation('C16/text-begin-on-keyword-boundary-read-silently', {'layout': lay, 'fault': flt, 'bytes': st['file']},
                          'refused, or the keywords of the intact file',
                          {'k': obs.get('k'), 'keywords_read': len(obs.get('text', []))})
        if dlt is None and st.get('cls') == 'stext-shift':
            # named deviation STextShift of Gen_C01.tla: the supplemental TEXT offsets carry no redundancy
            chk.violation('C16/stext-offset-corruption-read-silently', {'layout': lay, 'fault': flt, 'bytes': st['file']},
                          'refused, or the keywords of the intact file',
                          {'k': obs.get('k'), 'keywords_read': len(obs.get('text', []))})
        if dlt is not None:
            chk.violation('C16/%s/%s' % (fk if flt['k'] == 'field' else flt['k'], dlt),
                          {'layout': lay, 'fault': flt, 'bytes': st['file']},
                          {k: out[k] for k in ('k', 'why', 'N', 'D', 'data')},
                          {k: obs.get(k) for k in ('k', 'exc', 'N', 'D', 'data', 'fcsdata')})
    optimised_interpreter(chk, refused)
    chk.extra['fault_outcomes'] = {'%s->%s' % k: v for k, v in sorted(kinds.items())}
    chk.exhaustive = True


if __name__ == '__main__':
    run_driver('C16', main)
