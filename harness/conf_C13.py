"""C13 - no call changes its inputs, and results share no state with them.

MC+GEN spec/Heap (same model as C20): NoSharedMeta, BufSharing, Independent, ReadOnlyPreserves on all
   histories; replayed on real objects (conf_C20.heap_part).
REGISTRY  every public callable of io, transform, gate, stats, mef, plot and every public FCSData member is
   enumerated from the modules with inspect; each is bound to one or more call recipes (the spec's ReadOnly /
   Derive action instantiated with representative argument shapes).  For every recipe: fingerprint of every
   argument and caller-owned container before = after; FCSData objects in the result share no metadata
   container with the arguments and share the buffer only when the recipe is a view/basic slice.
   Query independence: the answer of query q2 is the same after query q1 as on a fresh object.
A callable without a recipe is listed in the evidence (coverage.unmapped) - no alarm.
"""
import copy
import inspect
import itertools
import json
import os
import random
import warnings

import numpy as np
import matplotlib
matplotlib.use('Agg')
import matplotlib.pyplot as plt  # noqa

from harness import core, tlc, fcsgen, loadform, heapreplay as hr
from harness.core import run_driver
from harness.conf_C20 import heap_part

import FlowCal.io  # noqa
import FlowCal.transform  # noqa
import FlowCal.gate  # noqa
import FlowCal.stats  # noqa
import FlowCal.mef  # noqa
import FlowCal.plot  # noqa


# ------------------------------------------------------------------------------------------------ inputs

class Inputs(object):
    def __init__(self, seed):
        rnd = np.random.RandomState(1234)
        d = tlc.scratch('c13_')
        self.dir = d
        n = 600
        fsc = np.clip(rnd.normal(500, 60, n), 1, 1022).astype(int)
        ssc = np.clip(rnd.normal(400, 80, n), 1, 1022).astype(int)
        fl1 = np.clip(rnd.lognormal(5.0, 0.5, n), 1, 1022).astype(int)
        ev = np.stack([fsc, ssc, fl1], axis=1)
        ev[0] = [0, 0, 0]
        ev[1] = [1023, 1023, 1023]
        self.path = os.path.join(d, 'cells.fcs')
        fcsgen.write_sample(self.path, ev.tolist(), ['FSC', 'SSC', 'FL1'], [1024] * 3, bits=16,
                            pne=['0,0', '0,0', '4,1'], pnv=['300', '310', '500'], png=['1', '1', None],
                            extra=[('$BTIM', '10:00:00'), ('$ETIM', '10:01:00'), ('$DATE', '01-Jan-2020')])
        # the same events in a file that records start and end times but no date, and no time step
        self.npath = os.path.join(d, 'cells_nodate.fcs')
        fcsgen.write_sample(self.npath, ev.tolist(), ['FSC', 'SSC', 'FL1'], [1024] * 3, bits=16,
                            pne=['0,0', '0,0', '4,1'], extra=[('$BTIM', '10:00:00.25'), ('$ETIM', '10:01:12.75')])
        # beads: 4 populations in FL1 (log amplified), tight scatter
        pops = []
        for k, mu in enumerate([150, 350, 550, 750]):
            m = 250
            pops.append(np.stack([np.clip(rnd.normal(500, 15, m), 1, 1022), np.clip(rnd.normal(450, 15, m), 1, 1022),
                                  np.clip(rnd.normal(mu, 6, m), 1, 1022)], axis=1).astype(int))
        bev = np.concatenate(pops)
        bev = bev[rnd.permutation(len(bev))]
        self.bpath = os.path.join(d, 'beads.fcs')
        fcsgen.write_sample(self.bpath, bev.tolist(), ['FSC', 'SSC', 'FL1'], [1024] * 3, bits=16, pne=['0,0', '0,0', '4,1'])
        # beads acquired with a LINEAR amplifier: the calibrated channel's range starts at 0 also in RFI
        pops = []
        for k, mu in enumerate([30, 100, 320, 900]):
            m = 250
            pops.append(np.stack([np.clip(rnd.normal(500, 15, m), 1, 1022), np.clip(rnd.normal(450, 15, m), 1, 1022),
                                  np.clip(rnd.normal(mu, 0.03 * mu, m), 1, 1022)], axis=1).astype(int))
        lev = np.concatenate(pops)
        lev = lev[rnd.permutation(len(lev))]
        self.lpath = os.path.join(d, 'beads_lin.fcs')
        fcsgen.write_sample(self.lpath, lev.tolist(), ['FSC', 'SSC', 'FL1'], [1024] * 3, bits=16, pne=['0,0', '0,0', '0,0'])

    def floatneg(self):
        """single-precision sample with readings below zero: the most negative ones of FSC and SSC a hair apart (1e-5
        relative), that of FL1 far from both - three different linear widths of the logicle scale"""
        p = os.path.join(self.dir, 'cells_floatneg.fcs')
        if not os.path.exists(p):
            a = np.asarray(FlowCal.io.FCSData(self.path).view(np.ndarray), dtype=np.float64) + 0.25
            a[5] = [-100.0, -100.001, -5.0]
            a[6] = [-3.0, -50.0, -1.0]
            fcsgen.write_sample(p, a.tolist(), ['FSC', 'SSC', 'FL1'], [1024] * 3, datatype='F', pne=['0,0'] * 3)
        with warnings.catch_warnings():
            warnings.simplefilter('ignore')
            return FlowCal.io.FCSData(p)

    def raw(self):
        with warnings.catch_warnings():
            warnings.simplefilter('ignore')
            return FlowCal.io.FCSData(self.path)

    def rfi(self):
        with warnings.catch_warnings():
            warnings.simplefilter('ignore')
            return FlowCal.transform.to_rfi(self.raw())

    def nodate(self):
        with warnings.catch_warnings():
            warnings.simplefilter('ignore')
            return FlowCal.io.FCSData(self.npath)

    def arr(self, float_=False):
        a = np.asarray(self.raw().view(np.ndarray))
        return a.astype(np.float64) if float_ else a.astype(np.int64)

    def beads(self):
        with warnings.catch_warnings():
            warnings.simplefilter('ignore')
            return FlowCal.transform.to_rfi(FlowCal.io.FCSData(self.bpath))


# ------------------------------------------------------------------------------------------------ fingerprints

def fp(x, depth=0):
    """bit-level fingerprint of an argument or caller-owned container"""
    if isinstance(x, FlowCal.io.FCSData):
        f = hr.fingerprint(x)
        return ('FCSData', tuple(sorted((k, v) for k, v in f.items())))
    if isinstance(x, np.ndarray):
        return ('ndarray', x.tobytes(), str(x.dtype), x.shape)
    if isinstance(x, dict):
        return ('dict', tuple((repr(k), fp(v, depth + 1)) for k, v in x.items()))
    if isinstance(x, (list, tuple)):
        return (type(x).__name__, tuple(fp(v, depth + 1) for v in x))
    if hasattr(x, 'read') and hasattr(x, 'closed'):
        return ('file', bool(x.closed))            # an open file the caller handed over stays the caller's: open
    if callable(x):
        return ('callable', id(x))
    return ('value', repr(x))


def meta_ids(x):
    if not isinstance(x, FlowCal.io.FCSData):
        return set()
    s = {id(x._range), id(x._text), id(x._analysis)}
    s |= {id(r) for r in x._range if isinstance(r, list)}
    return s


def find_samples(res, out=None, depth=0):
    out = [] if out is None else out
    if isinstance(res, np.ndarray):
        out.append(res)
    elif isinstance(res, dict) and depth < 4:
        for v in res.values():
            find_samples(v, out, depth + 1)
    elif isinstance(res, (list, tuple)) and depth < 4:
        for v in res:
            find_samples(v, out, depth + 1)
    return out


def answer(res):
    """fingerprint of a query's answer (for query independence)"""
    if isinstance(res, (FlowCal.io.FCSData, np.ndarray, dict, list, tuple)):
        return fp(res)
    if callable(res):
        return ('callable',)
    return ('value', repr(res))


# ------------------------------------------------------------------------------------------------ registry

class Recipe(object):
    def __init__(self, target, label, build, view=False, query=False, heavy=False, seeded=False):
        self.target, self.label, self.build = target, label, build
        self.view, self.query, self.heavy, self.seeded = view, query, heavy, seeded

    @property
    def name(self):
        return '%s[%s]' % (self.target, self.label)


def registry(I):
    R = []

    def add(target, label, build, **kw):
        R.append(Recipe(target, label, build, **kw))
    conts = {'raw': I.raw, 'rfi': I.rfi, 'array-int': I.arr, 'array-float': lambda: I.arr(True)}
    # ---- FCSData members
    for m in ('amplification_type', 'detector_voltage', 'amplifier_gain', 'channel_labels', 'range', 'resolution'):
        for lab, ch in (('all', None), ('name', 'FL1'), ('list', ['SSC', 0])):
            add('io.FCSData.' + m, 'raw/' + lab, (lambda m=m, ch=ch: (lambda a: getattr(a['s'], m)(ch), {'s': I.raw()})), query=True)
    for m in ('acquisition_end_time', 'acquisition_start_time', 'acquisition_time', 'analysis', 'channels', 'data_type',
              'infile', 'text', 'time_step'):
        add('io.FCSData.' + m, 'raw', (lambda m=m: (lambda a: getattr(a['s'], m), {'s': I.raw()})), query=True)
    # the derived time attributes of a sample whose file has times of day only (no date, no time channel)
    for m in ('acquisition_end_time', 'acquisition_start_time', 'acquisition_time', 'time_step'):
        add('io.FCSData.' + m, 'times-without-date', (lambda m=m: (lambda a: getattr(a['s'], m), {'s': I.nodate()})), query=True)
    for state in ('raw', 'rfi'):
        for scale in ('linear', 'log', 'logicle'):
            for lab, ch, nb in (('one', 'FL1', 16), ('all', None, None), ('list', [0, 'FL1'], [8, 9]), ('list-default', ['SSC', 'FL1'], [None, 16])):
                add('io.FCSData.hist_bins', '%s/%s/%s' % (state, scale, lab),
                    (lambda state=state, scale=scale, ch=ch, nb=nb:
                     (lambda a: a['s'].hist_bins(a['ch'], a['nb'], a['sc']),
                      {'s': conts[state](), 'ch': list(ch) if isinstance(ch, list) else ch,
                       'nb': list(nb) if isinstance(nb, list) else nb, 'sc': scale})), query=True)
    for ch in ('FSC', 'SSC', 'FL1'):
        for nb in (None, 64):
            add('io.FCSData.hist_bins', 'float-neg/logicle/%s/%s' % (ch, nb),
                (lambda ch=ch, nb=nb: (lambda a: a['s'].hist_bins(a['ch'], a['nb'], 'logicle'), {'s': I.floatneg(), 'ch': ch, 'nb': nb})), query=True)
    add('io.FCSData', 'load', lambda: (lambda a: FlowCal.io.FCSData(a['path']), {'path': I.path}))
    add('io.FCSFile', 'load', lambda: (lambda a: FlowCal.io.FCSFile(a['path']).data.shape, {'path': I.path}))
    # the documented other form of `infile`: an open file (a real handle / a file-like wrapper), read once and twice
    for lab, mk in (('handle', lambda: open(I.path, 'rb')), ('file-like', lambda: loadform.FileLike(open(I.path, 'rb')))):
        add('io.FCSData', 'load/' + lab, lambda mk=mk: (lambda a: FlowCal.io.FCSData(a['h']), {'h': mk()}))
        add('io.FCSData', 'load/%s/twice' % lab, lambda mk=mk: (lambda a: [FlowCal.io.FCSData(a['h']), FlowCal.io.FCSData(a['h'])], {'h': mk()}))
        add('io.FCSFile', 'load/' + lab, lambda mk=mk: (lambda a: [FlowCal.io.FCSFile(a['h']).data.shape, FlowCal.io.FCSFile(a['h']).text], {'h': mk()}))
    for seg in ('header', 'text'):
        def b(seg=seg):
            import io as _io
            raw = open(I.path, 'rb').read()
            buf = _io.BytesIO(raw)
            if seg == 'header':
                return (lambda a: FlowCal.io.read_fcs_header_segment(a['buf']), {'buf_bytes': raw, 'buf': buf})
            h = FlowCal.io.read_fcs_header_segment(_io.BytesIO(raw))
            return (lambda a: FlowCal.io.read_fcs_text_segment(a['buf'], h.text_begin, h.text_end), {'buf_bytes': raw, 'buf': buf})
        add('io.read_fcs_%s_segment' % seg, 'bytes', b)

    def bdata():
        f = open(I.path, 'rb')
        h = FlowCal.io.read_fcs_header_segment(f)
        widths = [16, 16, 16]
        rng = [1024.0, 1024.0, 1024.0]
        return (lambda a: FlowCal.io.read_fcs_data_segment(a['f'], h.data_begin, h.data_end, 'I', 600, a['widths'], False, a['rng']),
                {'f': f, 'widths': widths, 'rng': rng})
    add('io.read_fcs_data_segment', 'int', bdata)
    # ---- indexing / views (share the buffer, never metadata)
    for lab, key in (('rows', slice(0, 100)), ('cols', (slice(None), slice(0, 2))), ('name', (slice(None), 'FL1')),
                     ('mask', None), ('list', (slice(None), ['FL1', 0]))):
        def b(lab=lab, key=key):
            s = I.raw()
            k = key if key is not None else (np.arange(s.shape[0]) % 2 == 0)
            return (lambda a: a['s'][a['key']], {'s': s, 'key': k})
        add('io.FCSData.__getitem__', lab, b, view=lab in ('rows', 'cols', 'name'))
    add('io.FCSData.view', 'view', lambda: (lambda a: a['s'].view(), {'s': I.raw()}), view=True)
    add('io.FCSData.copy', 'copy', lambda: (lambda a: a['s'].copy(), {'s': I.raw()}))
    add('io.FCSData.astype', 'float', lambda: (lambda a: a['s'].astype(np.float64), {'s': I.raw()}))
    # ---- transform
    for c in ('raw', 'rfi', 'array-int', 'array-float'):
        add('transform.to_rfi', c + '/list', (lambda c=c: (lambda a: FlowCal.transform.to_rfi(a['s'], a['ch'], a['at'], a['ag'], a['res']),
                                                         {'s': conts[c](), 'ch': [2, 0], 'at': [(4.0, 1.0), (0.0, 0.0)], 'ag': [None, 2.0],
                                                          'res': [1024, 1024]})))
        add('transform.to_mef', c + '/curves', (lambda c=c: (lambda a: FlowCal.transform.to_mef(a['s'], a['ch'], a['sc'], a['scch']),
                                                           {'s': conts[c](), 'ch': [2], 'sc': [lambda x: 2.0 * x, lambda x: x + 1.0],
                                                            'scch': [2, 1]})))
        # channels counted from the last one (negative positions), in the caller's own lists
        add('transform.to_mef', c + '/curves/negative-positions',
            (lambda c=c: (lambda a: FlowCal.transform.to_mef(a['s'], a['ch'], a['sc'], a['scch']),
                          {'s': conts[c](), 'ch': [-1], 'sc': [lambda x: 2.0 * x, lambda x: x + 1.0], 'scch': [-1, -2]})))
        add('transform.to_rfi', c + '/negative-positions',
            (lambda c=c: (lambda a: FlowCal.transform.to_rfi(a['s'], a['ch'], a['at'], a['ag'], a['res']),
                          {'s': conts[c](), 'ch': [-1, -3], 'at': [(4.0, 1.0), (0.0, 0.0)], 'ag': [None, 2.0], 'res': [1024, 1024]})))
        add('transform.transform', c + '/fxn', (lambda c=c: (lambda a: FlowCal.transform.transform(a['s'], a['ch'], a['f']),
                                                           {'s': conts[c](), 'ch': [1, 2], 'f': lambda x: np.asarray(x) * 2.0})))
    add('transform.to_rfi', 'raw/defaults', lambda: (lambda a: FlowCal.transform.to_rfi(a['s']), {'s': I.raw()}))
    # ---- gates
    for c in ('raw', 'rfi', 'array-int', 'array-float'):
        add('gate.start_end', c, (lambda c=c: (lambda a: FlowCal.gate.start_end(a['s'], 20, 10, full_output=True), {'s': conts[c]()})))
        add('gate.high_low', c + '/defaults', (lambda c=c: (lambda a: FlowCal.gate.high_low(a['s'], a['ch'], full_output=True),
                                                          {'s': conts[c](), 'ch': [0, 1]})), query=True)
        add('gate.high_low', c + '/explicit', (lambda c=c: (lambda a: FlowCal.gate.high_low(a['s'], None, 900, 5), {'s': conts[c]()})))
        add('gate.ellipse', c, (lambda c=c: (lambda a: FlowCal.gate.ellipse(a['s'], a['ch'], a['center'], 200.0, 150.0, 0.3, full_output=True),
                                             {'s': conts[c](), 'ch': [0, 1], 'center': [500.0, 400.0]})))
        add('gate.ellipse', c + '/log', (lambda c=c: (lambda a: FlowCal.gate.ellipse(a['s'][2:], a['ch'], a['center'], 0.3, 0.3, 0.0, log=True),
                                                    {'s': conts[c](), 'ch': [0, 1], 'center': [2.7, 2.6]})))
    for c in ('raw', 'rfi'):
        for scale in ('linear', 'log', 'logicle'):
            add('gate.density2d', '%s/%s/nbins' % (c, scale),
                (lambda c=c, scale=scale: (lambda a: FlowCal.gate.density2d(a['s'], a['ch'], bins=a['bins'], gate_fraction=0.5, xscale=scale,
                                                                           yscale=scale, sigma=2.0, full_output=True),
                                           {'s': conts[c](), 'ch': ['FSC', 'SSC'], 'bins': 32})), heavy=True)
            add('gate.density2d', '%s/%s/bins-list' % (c, scale),
                (lambda c=c, scale=scale: (lambda a: FlowCal.gate.density2d(a['s'], a['ch'], bins=a['bins'], gate_fraction=0.5, xscale=scale,
                                                                           yscale=scale, sigma=2.0),
                                           {'s': conts[c](), 'ch': [0, 1], 'bins': [24, 16]})), heavy=True)
    add('gate.density2d', 'array/edges', lambda: (lambda a: FlowCal.gate.density2d(a['s'], a['ch'], bins=a['bins'], gate_fraction=0.3, sigma=1.0,
                                                                                 full_output=True),
                                                  {'s': I.arr(True), 'ch': [0, 1], 'bins': [np.linspace(0, 1024, 33), np.linspace(0, 1024, 17)]}))
    # ---- stats
    for st in ('mean', 'gmean', 'median', 'mode', 'std', 'cv', 'gstd', 'gcv', 'iqr', 'rcv'):
        for c in ('raw', 'rfi', 'array-int'):
            add('stats.' + st, c + '/list', (lambda st=st, c=c: (lambda a: getattr(FlowCal.stats, st)(a['s'][2:], a['ch']),
                                                                {'s': conts[c](), 'ch': [2, 0]})), query=(c == 'raw'))
        add('stats.' + st, 'raw/name', (lambda st=st: (lambda a: getattr(FlowCal.stats, st)(a['s'][2:], 'FL1'), {'s': I.raw()})), query=True)
    # ---- mef
    def pops():
        b = I.beads()
        fl = np.asarray(b[:, 'FL1'].view(np.ndarray))
        edges = [0, 5, 30, 200, 1e9]
        return [b[(fl >= lo) & (fl < hi)][:, 'FL1'] for lo, hi in zip(edges[:-1], edges[1:]) if ((fl >= lo) & (fl < hi)).sum() > 3]
    for scale in ('linear', 'log', 'logicle'):
        add('mef.selection_std', scale, (lambda scale=scale: (lambda a: FlowCal.mef.selection_std(a['pops'], scale=scale), {'pops': pops()})))
        add('mef.clustering_gmm', scale, (lambda scale=scale: (lambda a: FlowCal.mef.clustering_gmm(a['s'], 4, scale=scale),
                                                              {'s': I.beads()[:, ['FL1']]})), heavy=True, seeded=True)

        def nonpos(as_array, scale=scale):
            # floating-point events with zeros and negative values (compensated data)
            def build():
                smp = I.beads()[:, ['FL1']]
                smp[0, 0] = 0.0
                smp[2, 0] = -0.75
                smp[5, 0] = 0.0
                x = np.array(smp.view(np.ndarray), dtype=np.float64) if as_array else smp
                return (lambda a: FlowCal.mef.clustering_gmm(a['s'], 4, scale=scale), {'s': x})
            return build
        add('mef.clustering_gmm', scale + '/float-array-with-nonpositive-events', nonpos(True), heavy=True, seeded=True)
        add('mef.clustering_gmm', scale + '/float-sample-with-nonpositive-events', nonpos(False), heavy=True, seeded=True)
    def rawpops():
        with warnings.catch_warnings():
            warnings.simplefilter('ignore')
            b = FlowCal.io.FCSData(I.bpath)
        fl = np.asarray(b[:, 'FL1'].view(np.ndarray))
        return [b[(fl >= lo) & (fl < hi)][:, 'FL1'] for lo, hi in ((1, 250), (250, 450), (450, 650), (650, 1023))]
    for scale in ('linear', 'log'):
        add('mef.selection_std', scale + '/range-from-0', (lambda scale=scale: (lambda a: FlowCal.mef.selection_std(a['pops'], scale=scale),
                                                                                {'pops': rawpops()})))
    add('mef.selection_std', 'array/explicit', lambda: (lambda a: FlowCal.mef.selection_std(a['pops'], low=1.0, high=900.0, scale='linear'),
                                                       {'pops': [np.array([[10.0], [12.0], [11.0]]), np.array([[800.0], [950.0]])]}))
    add('mef.fit_beads_autofluorescence', 'arrays', lambda: (lambda a: FlowCal.mef.fit_beads_autofluorescence(a['rfi'], a['mef'])[2],
                                                            {'rfi': np.array([10., 60., 400., 2000.]), 'mef': np.array([800., 4000., 30000., 150000.])}))

    def gtf():
        return (lambda a: FlowCal.mef.get_transform_fxn(a['s'], a['mef'], a['ch'], clustering_params=a['cp'], selection_params=a['sp'],
                                                        statistic_params=a['stp'], fitting_params=a['fp'], full_output=True).mef_channels,
                {'s': I.beads(), 'mef': [[800., 4000., 30000., 150000.]], 'ch': ['FL1'], 'cp': {}, 'sp': {}, 'stp': {}, 'fp': {}})
    add('mef.get_transform_fxn', 'one-channel', gtf, heavy=True, seeded=True)

    def gtf_plots(raw):
        def build():
            import matplotlib.pyplot as plt
            pd_ = os.path.join(tlc.scratch('c13p_'), 'plots')

            def call(a):
                try:
                    return FlowCal.mef.get_transform_fxn(a['s'], a['mef'], a['ch'], plot=True, plot_dir=pd_, plot_filename='b',
                                                         full_output=True).mef_channels
                finally:
                    plt.close('all')
            with warnings.catch_warnings():
                warnings.simplefilter('ignore')
                # raw: beads acquired with a linear amplifier, the calibrated channel's range starts at 0 (the diagnostic plots then move the lower
                # axis limit - of their own copy)
                smp = FlowCal.transform.to_rfi(FlowCal.io.FCSData(I.lpath)) if raw else I.beads()
            return call, {'s': smp, 'mef': [[800., 4000., 30000., 150000.]], 'ch': ['FL1']}
        return build
    add('mef.get_transform_fxn', 'diagnostic-plots/rfi', gtf_plots(False), heavy=True, seeded=True)
    add('mef.get_transform_fxn', 'diagnostic-plots/range-from-zero', gtf_plots(True), heavy=True, seeded=True)

    def psc():
        out = FlowCal.mef.fit_beads_autofluorescence(np.array([10., 60., 400., 2000.]), np.array([800., 4000., 30000., 150000.]))
        return (lambda a: FlowCal.mef.plot_standard_curve(a['rfi'], a['mef'], out[1], out[0], xscale='log', yscale='log', xlim=a['xlim']),
                {'rfi': np.array([10., 60., 400., 2000.]), 'mef': np.array([800., 4000., 30000., 150000.]), 'xlim': [1.0, 1e4]})
    add('mef.plot_standard_curve', 'log', psc, heavy=True)
    # ---- plot
    for c in ('raw', 'rfi'):
        for scale in ('linear', 'log', 'logicle'):
            add('plot.hist1d', '%s/%s' % (c, scale), (lambda c=c, scale=scale: (lambda a: FlowCal.plot.hist1d(a['s'], channel='FL1', xscale=scale, bins=a['bins']),
                                                                               {'s': conts[c](), 'bins': 64})), heavy=True)
            add('plot.density2d', '%s/%s' % (c, scale),
                (lambda c=c, scale=scale: (lambda a: FlowCal.plot.density2d(a['s'], a['ch'], bins=a['bins'], mode='scatter', xscale=scale, yscale=scale, sigma=2.0),
                                           {'s': conts[c](), 'ch': ['FSC', 'SSC'], 'bins': [32, 24]})), heavy=True)
    def offscale():
        # floating-point events below the first and above the last bin edge (explicit edges)
        smp = I.rfi()
        smp[0, 2] = -3.5
        smp[1, 2] = 1e7
        smp[5, 2] = -0.25
        return (lambda a: FlowCal.plot.hist1d(a['s'], channel='FL1', xscale='linear', bins=a['bins']),
                {'s': smp, 'bins': np.linspace(0.0, 5000.0, 33)})
    add('plot.hist1d', 'float/off-scale-events/explicit-edges', offscale, heavy=True)

    def offscale_default():
        smp = I.rfi()
        smp[0, 2] = -3.5
        smp[1, 2] = 1e7
        return (lambda a: FlowCal.plot.hist1d(a['s'], channel='FL1', xscale='logicle'), {'s': smp})
    add('plot.hist1d', 'float/off-scale-events/default-bins', offscale_default, heavy=True)

    def sel_after_generic_transform(scale):
        def build():
            # populations whose range entries were produced by the generic transform() (numpy arrays, lower limit 0)
            with warnings.catch_warnings():
                warnings.simplefilter('ignore')
                d = FlowCal.transform.transform(FlowCal.io.FCSData(I.bpath), 'FL1', np.arcsinh)     # raw: the range starts at 0
            fl = np.asarray(d[:, 'FL1'].view(np.ndarray))
            cut = np.median(fl)
            pops_ = [d[fl < cut][:, 'FL1'], d[fl >= cut][:, 'FL1']]
            return (lambda a: FlowCal.mef.selection_std(a['pops'], scale=scale), {'pops': pops_})
        return build
    for scale in ('linear', 'log', 'logicle'):
        add('mef.selection_std', scale + '/after-generic-transform', sel_after_generic_transform(scale))
    add('plot.hist1d', 'list/edges', lambda: (lambda a: FlowCal.plot.hist1d(a['l'], channel=2, xscale='linear', bins=a['bins'], facecolor=a['fc']),
                                             {'l': [I.raw(), I.raw()[:100]], 'bins': list(np.linspace(0, 1024, 65)), 'fc': ['r', 'b']}), heavy=True)
    add('plot.scatter2d', 'list', lambda: (lambda a: FlowCal.plot.scatter2d(a['l'], a['ch'], xlim=a['xl']),
                                          {'l': [I.rfi(), I.rfi()[:50]], 'ch': ['FSC', 'FL1'], 'xl': [1.0, 1e4]}), heavy=True)
    add('plot.scatter3d', 'one', lambda: (lambda a: FlowCal.plot.scatter3d(a['s'], a['ch']), {'s': I.rfi(), 'ch': [0, 1, 2]}), heavy=True)
    add('plot.scatter3d_and_projections', 'one', lambda: (lambda a: FlowCal.plot.scatter3d_and_projections(a['s'], a['ch']),
                                                         {'s': I.rfi(), 'ch': [0, 1, 2]}), heavy=True)
    add('plot.violin', 'list', lambda: (lambda a: FlowCal.plot.violin(a['l'], channel='FL1', positions=a['pos'], yscale='log', violin_kwargs=a['vk']),
                                       {'l': [I.rfi(), I.rfi()[:200]], 'pos': [1.0, 2.0], 'vk': {'facecolor': 'gray'}}), heavy=True)
    add('plot.violin', 'log-positions-with-zero', lambda: (lambda a: FlowCal.plot.violin(a['l'], channel='FL1', positions=a['pos'], xscale='log',
                                                                                       yscale='log'),
                                                          {'l': [I.rfi(), I.rfi()[:200], I.rfi()[100:300]], 'pos': [0, 1.0, 10.0]}), heavy=True)
    add('plot.violin', 'arrays/horizontal-log-zero', lambda: (lambda a: FlowCal.plot.violin(a['l'], positions=a['pos'], yscale='log', xscale='log',
                                                                                          vert=False),
                                                             {'l': [np.linspace(5., 900., 150)[::-1].copy(), np.linspace(2., 500., 120)[::-1].copy()],
                                                              'pos': [0, 5.0]}), heavy=True)
    # every per-violin parameter given as a LIST (one entry per violin), with a violin at position 0 of a log axis
    def violin_lists(fn, horizontal=False):
        def build():
            args = {'l': [I.rfi(), I.rfi()[:200], I.rfi()[100:300]], 'pos': [0, 1.0, 10.0],
                    'vk': [{'facecolor': 'gray'}, {'facecolor': 'red'}, {'facecolor': 'blue'}],
                    'sk': [{'color': 'k'}, {'color': 'k'}, {'color': 'b'}], 'ut': [0.01, 0.02, 0.01], 'lt': [0.01, 0.01, 0.03]}
            kw = dict(xscale='log', yscale='log')
            if horizontal:
                kw['vert'] = False

            def call(a):
                return fn(a['l'], channel='FL1', positions=a['pos'], violin_kwargs=a['vk'], draw_summary_stat_kwargs=a['sk'],
                          upper_trim_fraction=a['ut'], lower_trim_fraction=a['lt'], **kw)
            return call, args
        return build
    add('plot.violin', 'per-violin-lists/log-zero', violin_lists(FlowCal.plot.violin), heavy=True)
    add('plot.violin', 'per-violin-lists/horizontal-log-zero', violin_lists(FlowCal.plot.violin, True), heavy=True)
    add('plot.violin_dose_response', 'per-violin-lists/log-zero', violin_lists(FlowCal.plot.violin_dose_response), heavy=True)
    add('plot.violin_dose_response', 'log-positions-with-zero',
        lambda: (lambda a: FlowCal.plot.violin_dose_response(a['l'], channel='FL1', positions=a['pos'], min_data=a['mn'], max_data=a['mx'],
                                                             xscale='log', yscale='log'),
                 {'l': [I.rfi(), I.rfi()[:200], I.rfi()[50:250]], 'pos': [0, 1.0, 10.0], 'mn': I.rfi()[:100], 'mx': I.rfi()[300:400]}), heavy=True)
    add('plot.violin_dose_response', 'list', lambda: (lambda a: FlowCal.plot.violin_dose_response(a['l'], channel='FL1', positions=a['pos'],
                                                                                                 min_data=a['mn'], xscale='log', yscale='log'),
                                                     {'l': [I.rfi(), I.rfi()[:200]], 'pos': [1.0, 10.0], 'mn': I.rfi()[:100]}), heavy=True)

    def dah():
        s = I.rfi()
        g = FlowCal.gate.density2d(s, ['FSC', 'SSC'], bins=64, gate_fraction=0.5, sigma=3.0, full_output=True)
        return (lambda a: FlowCal.plot.density_and_hist(a['s'], a['g'], gate_contour=a['c'], density_channels=a['dch'], density_params=a['dp'],
                                                        hist_channels=a['hch'], hist_params=a['hp']),
                {'s': s, 'g': g.gated_data, 'c': g.contour, 'dch': ['FSC', 'SSC'], 'dp': {'mode': 'scatter', 'sigma': 3.0, 'bins': 64},
                 'hch': ['FL1'], 'hp': [{'xscale': 'logicle', 'bins': 64}]})
    add('plot.density_and_hist', 'gated', dah, heavy=True)
    return R


def public_callables():
    out = []
    for mod in (FlowCal.io, FlowCal.transform, FlowCal.gate, FlowCal.stats, FlowCal.mef, FlowCal.plot):
        short = mod.__name__.split('.')[-1]
        for n, f in inspect.getmembers(mod):
            if n.startswith('_') or getattr(f, '__module__', None) != mod.__name__:
                continue
            if inspect.isfunction(f) or (inspect.isclass(f) and short == 'io'):
                out.append('%s.%s' % (short, n))
    for n in FlowCal.io.FCSData.__dict__:
        if not n.startswith('_'):
            out.append('io.FCSData.' + n)
    return sorted(out)


def run_recipe(chk, r):
    """-> (label or None, answer fingerprint)"""
    plt.close('all')
    try:
        call, args = r.build()
    except Exception as e:  # noqa
        raise tlc.MachineryError('recipe %s cannot be built: %r' % (r.name, e))
    before = {k: fp(v) for k, v in args.items() if k != 'buf' and k != 'f'}
    ids_in = set()
    for v in args.values():
        for s in find_samples(v):
            ids_in |= meta_ids(s)
    if r.seeded:
        np.random.seed(7)
    try:
        with warnings.catch_warnings():
            warnings.simplefilter('ignore')
            res = call(args)
    except Exception as e:  # noqa
        plt.close('all')
        return 'raises:' + type(e).__name__, None
    lab = None
    after = {k: fp(v) for k, v in args.items() if k != 'buf' and k != 'f'}
    changed = [k for k in before if before[k] != after[k]]
    if changed:
        lab = 'input-changed:' + '+'.join(changed)
    else:
        ins = find_samples(list(args.values()))
        for s in find_samples(res):
            if any(s is x for x in ins):
                continue
            if meta_ids(s) & ids_in:
                lab = 'result-shares-metadata'
            if not r.view and any(np.shares_memory(s, x) for x in ins):
                lab = 'result-shares-buffer'
    ans = answer(res)
    plt.close('all')
    return lab, ans


def main(chk, replay=None):
    chk.rule = ('REGISTRY: every recipe bound to a public callable (inspect-enumerated), each executed once with before/after '
                'fingerprints and sharing analysis; ordered pairs of query recipes for query independence; HEAP: histories of '
                'the Heap model replayed on real objects.  non-trivial = every recipe / history')
    chk.assumptions = ['TLC, value parser', 'fingerprints: bytes, dtype, shape, every attribute, container contents',
                       'recipes are representative argument shapes, not all arguments']
    if replay:
        print(json.dumps(replay, indent=1, default=core.jdefault)[:3000])
        return
    heap_part(chk, 'C13', hr.Store(float_file=False))
    I = Inputs(chk.seed)
    R = registry(I)
    targets = {r.target for r in R}
    pub = public_callables()
    chk.extra['registry'] = {'public_callables': len(pub), 'mapped': len([p for p in pub if p in targets]),
                             'unmapped': [p for p in pub if p not in targets], 'recipes': len(R)}
    answers = {}
    neg = False
    for r in R:
        lab, ans = run_recipe(chk, r)
        answers[r.name] = ans
        chk.case(('recipe', r.name), nontrivial=True, sample={'recipe': r.name, 'verdict': lab or 'unchanged'} if len(chk.samples) < 3 else None)
        chk.traces += 1
        if lab and lab.startswith('raises'):
            # a recipe that cannot run says nothing about mutation; other properties own the failure
            chk.extra.setdefault('recipes_raising', []).append('%s: %s' % (r.name, lab))
            continue
        if lab:
            chk.violation('C13/%s/%s' % (r.target, lab.split(':')[0]), {'recipe': r.name}, 'arguments bit-identical; nothing shared', lab)
    # negative control: a recipe that does mutate its argument must be flagged
    bad = Recipe('control', 'mutates', lambda: (lambda a: a['bins'].__setitem__(0, 99), {'bins': [1, 2]}))
    chk.negative_control(run_recipe(chk, bad)[0] is not None, 'C13 frame check misses a mutated list argument')
    # query independence
    Q = [r for r in R if r.query and not r.heavy]
    pairs = list(itertools.permutations(range(len(Q)), 2))
    rnd = random.Random(chk.seed)
    if chk.quick:
        # (all ordered pairs of logicle queries on the sample with negative readings, and a sample of the others)
        pairs = [p_ for p_ in pairs if 'float-neg' in Q[p_[0]].name and 'float-neg' in Q[p_[1]].name] + \
            rnd.sample(pairs, min(len(pairs), 600))
    by_state = {}
    for i, j in pairs:
        q1, q2 = Q[i], Q[j]
        # both queries must address the same object: rebuild q2's argument and run q1's call on it when compatible
        c2, a2 = q2.build()
        c1, a1 = q1.build()
        if set(a1) - {'s'} or 's' not in a2 or type(a1.get('s')) is not type(a2['s']):
            continue
        try:
            with warnings.catch_warnings():
                warnings.simplefilter('ignore')
                c1({'s': a2['s']})
                got = answer(c2(a2))
        except Exception:
            continue
        chk.evaluations += 1
        chk.traces += 1
        if answers.get(q2.name) is not None and got != answers[q2.name]:
            chk.violation('C13/query-order/%s-after-%s' % (q2.target, q1.target), {'first': q1.name, 'then': q2.name},
                          'same answer as on a fresh object', 'answer differs')
    from harness import session
    session.run(chk, 'C13')          # spec/Session.tla: the property inside whole analysis sessions
    chk.exhaustive = not chk.quick


if __name__ == '__main__':
    run_driver('C13', main)
