"""Python FCS writer.  Used (a) to render abstract scenarios into files for the object-level
properties (the file is only a vehicle there) and (b) in the TRACE direction of C01/C14, where
the trace specification re-reads the produced bytes itself, which also checks this writer."""
import os
import struct
import numpy as np

ENC = 'ISO-8859-1'


def esc(s, delim):
    return s.replace(delim, delim * 2)


def encode_text(pairs, delim='/', lead=True):
    out = delim if lead else ''
    for k, v in pairs:
        out += esc(k, delim) + delim + esc(v, delim) + delim
    return out


def pack_events(events, widths, big, datatype='I'):
    """events: list of rows of python ints (datatype I) or floats; widths in bits per parameter."""
    out = bytearray()
    for row in events:
        for v, w in zip(row, widths):
            if datatype == 'I':
                out += int(v).to_bytes(w // 8, 'big' if big else 'little')
            elif datatype == 'F':
                out += struct.pack('>f' if big else '<f', v)
            else:
                out += struct.pack('>d' if big else '<d', v)
    return bytes(out)


def build(version='FCS3.0', pairs=(), data=b'', delim='/', supp_pairs=None, analysis_pairs=None,
          offsets_in='header', end_conv='last', pad_text=0, pad_data=0, pad_tail=0,
          analysis_in='header', supp_lead=True, trailing_text='', raw_text=None, raw_supp=None,
          raw_analysis=None, analysis_lead=True, offset_style='zero', stext_first=False, stext_last=False, empty_stext=False):
    """Assemble HEADER + TEXT + [sTEXT] + DATA + [ANALYSIS].  pairs must NOT contain the offset
    keywords ($BEGINDATA ...); they are added here for 3.x with fixed-width values.
    Returns (bytes, layout dict)."""
    v3 = version in ('FCS3.0', 'FCS3.1')
    text_begin = 58 + pad_text
    # stext_first: the supplemental TEXT segment is stored BEFORE the primary one (segments are located by offsets only)
    pre = None
    if stext_first and v3:
        pre = raw_supp if raw_supp is not None else (encode_text(supp_pairs, delim, lead=supp_lead) if supp_pairs is not None else None)
        if pre:
            text_begin = 58 + pad_text + len(pre.encode(ENC))
        else:
            pre = None

    def text_with(off):
        if raw_text is not None:
            return raw_text
        ps = list(pairs)
        if v3:
            # the offsets as writers render them: zero-padded, or blank-padded on either side (fixed width either way)
            fmt = {'zero': '%08d', 'right': '%8d', 'left': '%-8d'}[offset_style]
            ps = [('$BEGINANALYSIS', fmt % off['ab_t']), ('$ENDANALYSIS', fmt % off['ae_t']),
                  ('$BEGINSTEXT', fmt % off['sb']), ('$ENDSTEXT', fmt % off['se']),
                  ('$BEGINDATA', fmt % off['db_t']), ('$ENDDATA', fmt % off['de_t'])] + ps
        return encode_text(ps, delim) + trailing_text

    zero = dict(ab_t=0, ae_t=0, sb=0, se=0, db_t=0, de_t=0)
    tlen = len(text_with(zero).encode(ENC))
    text_end = text_begin + tlen - 1
    pos = text_end + 1
    if raw_supp is not None:
        stext = raw_supp
    elif supp_pairs is not None:
        stext = encode_text(supp_pairs, delim, lead=supp_lead)
    else:
        stext = None
    sb = se = 0
    if pre is not None:
        sb = 58 + pad_text
        se = sb + len(pre.encode(ENC)) - 1
        stext = pre
    elif stext is not None and v3 and len(stext) > 0 and stext_last:
        pass            # stored after every other segment (located by its offsets only): placed below
    elif stext is not None and v3 and len(stext) > 0:
        sb = pos
        se = pos + len(stext.encode(ENC)) - 1
        pos = se + 1
    elif empty_stext and v3:
        # an EMPTY supplemental segment declared the way a writer computing end = begin + length - 1 does it:
        # non-zero offsets, zero length
        sb, se = pos, pos - 1
    pos += pad_data
    db = pos
    de_last = db + len(data) - 1
    de = de_last if end_conv == 'last' else de_last + 1
    pos = db + len(data) + pad_tail
    if raw_analysis is not None:
        atext = raw_analysis
    elif analysis_pairs is not None:
        atext = encode_text(analysis_pairs, delim, lead=analysis_lead)
    else:
        atext = None
    ab = ae = 0
    if atext is not None and len(atext) > 0:
        ab = pos
        ae = pos + len(atext.encode(ENC)) - 1
        pos = ae + 1
    last = stext is not None and v3 and len(stext) > 0 and stext_last and pre is None
    if last:
        sb = pos
        se = pos + len(stext.encode(ENC)) - 1
        pos = se + 1
    hdr_data = (db, de) if offsets_in == 'header' else (0, 0)
    if not v3:
        hdr_data = (db, de)
    hdr_an = (ab, ae) if (analysis_in == 'header' or not v3) else (0, 0)
    off = dict(ab_t=ab, ae_t=ae, sb=sb, se=se, db_t=db, de_t=de)
    text = text_with(off).encode(ENC)
    assert len(text) == tlen
    header = ('%-10s' % version) + '%8d%8d%8d%8d%8d%8d' % (text_begin, text_end, hdr_data[0], hdr_data[1],
                                                         hdr_an[0], hdr_an[1])
    out = bytearray(header.encode(ENC))
    out += b' ' * pad_text
    if pre is not None:
        out += pre.encode(ENC)
    out += text
    if sb and pre is None and not last and stext:
        out += stext.encode(ENC)
    out += b'\x00' * pad_data
    assert len(out) == db, (len(out), db)
    out += data
    out += b'\x00' * pad_tail
    if ab:
        out += atext.encode(ENC)
    if last:
        assert len(out) == sb, (len(out), sb)
        out += stext.encode(ENC)
    layout = dict(text_begin=text_begin, text_end=text_end, data_begin=db, data_end=de, sb=sb, se=se,
                  ab=ab, ae=ae)
    return bytes(out), layout


def sample_pairs(n_events, names, widths, ranges, datatype='I', big=False, pne=None, png=None, pnv=None,
                 pns=None, extra=(), byteord=None, mode='L'):
    D = len(names)
    ps = [('$BYTEORD', byteord or ('4,3,2,1' if big else '1,2,3,4')), ('$DATATYPE', datatype),
          ('$MODE', mode), ('$NEXTDATA', '0'), ('$PAR', str(D)), ('$TOT', str(n_events))]
    for i in range(D):
        n = i + 1
        ps.append(('$P%dB' % n, str(widths[i])))
        ps.append(('$P%dR' % n, str(ranges[i])))
        if names[i] is not None:
            ps.append(('$P%dN' % n, names[i]))
        if pne is not None and pne[i] is not None:
            ps.append(('$P%dE' % n, pne[i]))
        if png is not None and png[i] is not None:
            ps.append(('$P%dG' % n, png[i]))
        if pnv is not None and pnv[i] is not None:
            ps.append(('$P%dV' % n, pnv[i]))
        if pns is not None and pns[i] is not None:
            ps.append(('$P%dS' % n, pns[i]))
    ps += list(extra)
    return ps


def write_sample(path, events, names, ranges, bits=16, datatype='I', big=False, version='FCS3.0', **kw):
    """events: N x D nested list / array of ints (or floats for F/D)."""
    events = [list(r) for r in events]
    D = len(names)
    widths = [bits] * D if isinstance(bits, int) else list(bits)
    if datatype == 'F':
        widths = [32] * D
    if datatype == 'D':
        widths = [64] * D
    build_kw = {k: kw.pop(k) for k in list(kw) if k in ('delim', 'supp_pairs', 'analysis_pairs', 'offsets_in',
                                                      'end_conv', 'pad_text', 'pad_data', 'pad_tail', 'stext_first', 'stext_last', 'supp_lead')}
    ps = sample_pairs(len(events), names, widths, ranges, datatype=datatype, big=big, **kw)
    data = pack_events(events, widths, big, datatype)
    b, lay = build(version=version, pairs=ps, data=data, **build_kw)
    with open(path, 'wb') as f:
        f.write(b)
    return path
