"""C12 - summary statistics equal their definitions for any container and channel form.

MC+GEN spec/Stats via spec/gen/Gen_C12: environment actions pick two columns (all value tuples over a small
alphabet and over a wide 16-bit alphabet), the container and the channel-argument form; the final action
computes every statistic of every requested channel as exact rationals / identities.  Each completed
scenario is executed: FlowCal.stats.<statistic>(container, channels) for all ten statistics.
"""
import json
import math
import os
import warnings

import numpy as np

from harness import core, tlc, fcsgen, loadform
from harness.core import run_driver

import FlowCal.io  # noqa
import FlowCal.stats  # noqa
import FlowCal.transform  # noqa

STATS = ['mean', 'gmean', 'median', 'mode', 'std', 'cv', 'gstd', 'gcv', 'iqr', 'rcv']


class Containers(object):
    def __init__(self):
        self.dir = tlc.scratch('c12_')
        self.cache = {}

    def get(self, cols, kind):
        if len(cols) == 2 and getattr(self, 'four', False):
            c0, c1 = cols
            cols = [c0, c1, c0[::-1], [4 if i == 0 else 2 for i in range(len(c1))]]
        key = (json.dumps(cols), kind)
        if key in self.cache:
            return self.cache[key]
        if len(self.cache) > 4000:
            self.cache.clear()
        if kind.endswith('-signed'):
            # signed data: the first column (and the one derived from it) holds the negated values (Gen_C12.Signed)
            cols = [[-v for v in c] if j in (0, 2) else c for j, c in enumerate(cols)]
        mat = [[c[r] for c in cols] for r in range(len(cols[0]))]
        nc = len(cols)
        if kind == 'array-int':
            x = np.array(mat, dtype=np.uint16)
        elif kind == 'array-int8':
            x = np.array(mat, dtype=np.uint8)
        elif kind in ('array-float', 'array-float-signed'):
            x = np.array(mat, dtype=np.float64)
        elif kind == 'array-float-F':
            x = np.asfortranarray(np.array(mat, dtype=np.float64))
        else:
            path = os.path.join(self.dir, 's.fcs')
            dt = 'F' if kind.startswith('sample-float32') else ('D' if kind == 'sample-double-used' else 'I')
            vals = [[float(v) for v in row] for row in mat] if dt in ('F', 'D') else mat
            if kind == 'sample-int8':
                fcsgen.write_sample(path, vals, ['c%d' % i for i in range(nc)], [256] * nc, bits=8, datatype=dt, pne=['0,0'] * nc)
            else:
                fcsgen.write_sample(path, vals, ['c%d' % i for i in range(nc)], [65536] * nc, bits=16, datatype=dt, pne=['0,0'] * nc)
            with warnings.catch_warnings():
                warnings.simplefilter('ignore')
                x = FlowCal.io.FCSData(loadform.arg(path))
                if kind == 'sample-double-used':
                    # the RAW sample of a double-precision file, after its RFI version was made (and dropped): the raw
                    # statistics are still those of the recorded events
                    FlowCal.transform.to_rfi(x, amplification_type=[(0, 0)] * nc, amplifier_gain=[2.0] * nc)
                if kind in ('sample-rfi', 'sample-rfi-F'):
                    x = FlowCal.transform.to_rfi(x)
                if kind == 'sample-rfi-F':
                    x = x[:, list(range(nc))]          # a channel-list selection: new, column-major buffer
        self.cache[key] = x
        return x


def render_form(f, nch=2):
    if f['t'] == 'absent':
        return None
    # named: 0 position, 1 name, 2 negative position (counted from the last of the container's nch channels)
    elems = [('c%d' % c) if n == 1 else (c - nch if n == 2 else c) for c, n in zip(f['xs'], f['named'])]
    if f['t'] in ('pos', 'name'):
        return elems[0]
    return elems


def close(obs, num, den, tol):
    exp = num / den
    return abs(float(obs) - exp) <= tol * max(1.0, abs(exp))


def check_call(stat, x, ch, exp, tol):
    """-> (label or None, observed summary)"""
    fn = getattr(FlowCal.stats, stat)
    try:
        with warnings.catch_warnings():
            warnings.simplefilter('ignore')
            r = fn(x, ch) if ch is not None else fn(x)
    except Exception as e:  # noqa
        return 'raises:' + type(e).__name__, None
    per = exp['per']
    if exp['scalar']:
        if np.ndim(r) != 0:
            return 'not-scalar', repr(r)
        vals = [r]
    else:
        if np.ndim(r) != 1 or len(r) != len(per):
            return 'shape', repr(r)
        vals = list(np.asarray(r))
    obs = [float(v) for v in vals]
    for v, p in zip(obs, per):
        ok = True
        if stat == 'mean':
            ok = close(v, p['mean'][0], p['mean'][1], tol)
        elif stat == 'median':
            ok = close(v, p['median'][0], p['median'][1], tol)
        elif stat == 'mode':
            ok = any(v == float(m) for m in p['modes'])
        elif stat == 'iqr':
            ok = close(v, p['iqr'][0], p['iqr'][1], tol)
        elif stat == 'rcv':
            ok = close(v, p['rcv'][0], p['rcv'][1], tol)
        elif stat == 'std' and p['var']:
            ok = v >= 0 and close(v * v, p['var'][0], p['var'][1], max(tol, 1e-9))
        elif stat == 'cv' and p['cv2']:
            # (the coefficient of variation carries the sign of the mean)
            ok = (v >= 0 if p['mean'][0] >= 0 else v <= 0) and close(v * v, p['cv2'][0], p['cv2'][1], max(tol, 1e-9))
        elif stat == 'gmean' and p['gpow']:
            ok = v > 0 and abs(v ** p['n'] - p['gpow']) <= max(tol, 1e-9) * p['n'] * p['gpow']
        if not ok:
            return 'value', obs
    return None, obs


def main(chk, replay=None):
    chk.rule = ('GEN: all pairs of columns of 1..N events over {1,2,4} (all ten statistics) and over {3,40000,65535} '
                '(mean, median, mode, iqr, rcv; identities for the others) x 5 containers x 9 channel-argument forms; '
                'non-trivial = columns not constant or channel form not absent')
    chk.assumptions = ['TLC, value parser', 'float32 containers compared to 2e-6 relative, others to 1e-12 (1e-9 for squared identities)',
                       'gstd against exp(std(ln x)) is a logged observation']
    if replay:
        print(json.dumps(replay, indent=1)[:3000])
        return
    C = Containers()
    neg = False
    runs = [(2, 'FALSE', 'FALSE'), (2, 'TRUE', 'FALSE'), (2, 'FALSE', 'TRUE')] if chk.quick else \
        [(3, 'FALSE', 'FALSE'), (3, 'TRUE', 'FALSE'), (4, 'FALSE', 'FALSE'), (3, 'FALSE', 'TRUE'), (2, 'TRUE', 'TRUE')]
    gstd_obs = {'n': 0, 'max_rel_err': 0.0, 'ok': True}
    for maxn, wide, four in runs:
        C.four = four == 'TRUE'
        if maxn == 4:
            cfg_vals = 'MaxN = 4'
        cfg = ('SPECIFICATION Spec\nCONSTANTS MaxN = %d\nWide = %s\nFour = %s\nINVARIANT ModeIsMostFrequent\nINVARIANT MedianBetween\n'
               'INVARIANT VarNonNeg\nINVARIANT IqrNonNeg\n') % (maxn, wide, four)
        if maxn == 4:
            res = tlc.run_tlc('Gen_C12', cfg, simulate=(4000, 6), workers=1, seed=chk.seed)
            if res.violated or 'Error' in res.stdout:
                raise tlc.MachineryError('Gen_C12 simulate: ' + res.stdout[-1500:])
            states = [b[-1][1] for b in res.sim_behaviours() if b]
        else:
            res = tlc.require_ok(tlc.run_tlc('Gen_C12', cfg, dump=True), 'Gen_C12')
            states = res.dump_states()
        chk.add_tlc(res, 'Gen_C12[N<=%d,wide=%s,four=%s]' % (maxn, wide, four))
        for st in states:
            if st['stage'] != 100:
                continue
            c0, c1, kind, form = st['scn']
            exp = st['out']
            x = C.get([c0, c1], kind)
            ch = render_form(form, 4 if C.four else 2)
            tol = 2e-6 if kind.startswith('sample-float32') else 1e-12
            results = {}
            for stat in STATS:
                before = np.asarray(x.view(np.ndarray)).tobytes()
                ch_before = repr(ch)
                lab, obs = check_call(stat, x, ch, exp, tol)
                if np.asarray(x.view(np.ndarray)).tobytes() != before:
                    lab = 'events-changed-by-the-call'
                    C.cache.clear()
                elif repr(ch) != ch_before:
                    lab = 'caller-channel-list-changed'
                results[stat] = obs
                chk.evaluations += 1
                if lab is not None:
                    chk.violation('C12/%s/%s/%s/%s' % (stat, kind, form['t'] + ('-named' if any(form['named']) else ''), lab),
                                  {'cols': [c0, c1], 'container': kind, 'channels': form, 'stat': stat},
                                  exp, obs)
            # identities between returned values
            r = results
            idt = None
            try:
                def vec(k):
                    return np.atleast_1d(np.array(r[k], dtype=float))
                if r['cv'] is not None and r['std'] is not None and r['mean'] is not None:
                    if not np.allclose(vec('cv'), vec('std') / vec('mean'), rtol=max(tol, 1e-12) * 10, atol=0):
                        idt = 'cv=std/mean'
                if r['rcv'] is not None and r['iqr'] is not None and r['median'] is not None:
                    if not np.allclose(vec('rcv'), vec('iqr') / vec('median'), rtol=max(tol, 1e-12) * 10, atol=1e-300):
                        idt = 'rcv=iqr/median'
                if kind.endswith('-signed'):
                    r = dict(r, gcv=None, gstd=None)          # geometric statistics are not defined for signed data
                if r['gcv'] is not None and r['gstd'] is not None:
                    if not np.allclose(vec('gcv'), np.sqrt(np.exp(np.log(vec('gstd')) ** 2) - 1), rtol=1e-6, atol=1e-7):
                        idt = 'gcv=f(gstd)'
                if r['gstd'] is not None:
                    allc = [c0, c1, c0[::-1], [4 if i == 0 else 2 for i in range(len(c1))]]
                    cols = [allc[c] for c in (form['xs'] if form['t'] != 'absent' else list(range(4 if C.four else 2)))]
                    ref = np.array([math.exp(float(np.std(np.log(np.array(c, dtype=float))))) for c in cols])
                    err = float(np.max(np.abs(vec('gstd') - ref) / ref))
                    gstd_obs['n'] += 1
                    gstd_obs['max_rel_err'] = max(gstd_obs['max_rel_err'], err)
                    if err > 1e-5:
                        gstd_obs['ok'] = False
                        idt = 'gstd-definition'
            except Exception as e:  # noqa
                idt = 'identity-eval:' + type(e).__name__
            if idt:
                chk.violation('C12/identity/%s/%s' % (idt, kind), {'cols': [c0, c1], 'container': kind, 'channels': form}, idt, results)
            if not neg and exp['per'][0]['mean'][0] != 0:
                bad = json.loads(json.dumps(exp))
                bad['per'][0]['mean'][0] += 1
                lab, _ = check_call('mean', x, ch, bad, tol)
                chk.negative_control(lab is not None, 'C12 comparator accepts a wrong mean')
                neg = True
            nontriv = len(set(c0)) > 1 or len(set(c1)) > 1 or form['t'] != 'absent'
            chk.case(('s', json.dumps(st['scn'])), nontrivial=nontriv,
                     sample={'scenario': st['scn'], 'expected': exp, 'observed': results} if chk.traces % 2503 == 9 else None)
            chk.evaluations -= 1
            chk.traces += 1
    chk.logged['gstd_vs_definition'] = gstd_obs
    from harness import session
    session.run(chk, 'C12', every=12 if chk.quick else 1)    # spec/Session.tla: the property in every state of analysis sessions
    chk.exhaustive = True


if __name__ == '__main__':
    run_driver('C12', main)
