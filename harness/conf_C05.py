"""C05 - the density gate keeps the densest whole bins holding the requested share.

MC    spec/mc/MC_DensityGate: on all small instances the implementation's algorithm (shortest prefix of any
      density-compatible order) satisfies the documented predicate; monotone in the target; all at 1; none
      outside the grid; whole bins.
GEN   spec/gen/Gen_C05: integer scenarios independent of the density order (replay with EVERY bin mask,
      fraction 0 and 1, error conditions) executed on plain arrays and loaded samples with explicit edges.
TRACE spec/trace/Trace_C05: hypothesis event sets (continuous, heavily tied, with out-of-grid events), bin
      specifications (count, explicit edges, per-axis mixtures, sample-derived linear/log/logicle), fractions
      (incl. 0, 1, f*n integral), smoothing widths, a permutation and a second fraction.  The harness supplies
      edge codes and density RANKS (documented smoothing, exact ties preserved) as inputs; the trace spec
      decides validity of the returned bin mask and masks.
"""
import bisect
import json
import os
import re
import warnings

import numpy as np
import scipy.ndimage

from harness import core, tlc, fcsgen, loadform
from harness.core import run_driver

import FlowCal.io  # noqa
import FlowCal.gate  # noqa


def code_of(v, edges):
    k = len(edges) - 1
    if v < edges[0]:
        return -1
    if v > edges[-1]:
        return 2 * k + 1
    if v == edges[-1]:
        return 2 * k
    i = bisect.bisect_right(list(edges), v) - 1
    return 2 * i if v == edges[i] else 2 * i + 1


def bin_of(code, k):
    if code < 0 or code > 2 * k:
        return -1
    return k - 1 if code == 2 * k else code // 2


def ranks_of(codes, kx, ky, sigma):
    H = np.zeros((kx, ky), dtype=np.float64)
    for cx, cy in codes:
        bx, by = bin_of(cx, kx), bin_of(cy, ky)
        if bx >= 0 and by >= 0:
            H[bx, by] += 1
    sH = scipy.ndimage.gaussian_filter(H, sigma=sigma, order=0, mode='constant', cval=0.0, truncate=6.0)
    D = sH / np.sum(sH) if np.sum(sH) != 0 else sH
    vals = sorted(set(D.ravel().tolist()))
    idx = {v: i for i, v in enumerate(vals)}
    return [[idx[float(D[i, j])] for j in range(ky)] for i in range(kx)]


class Samples(object):
    def __init__(self):
        self.dir = tlc.scratch('c05_')
        self.path = os.path.join(self.dir, 's.fcs')

    def load(self, pts, R=64, dt='I', lead=False):
        ev = [[int(p[0]), int(p[1]), 7] for p in pts] if dt == 'I' else [[float(p[0]), float(p[1]), 7.0] for p in pts]
        names = ['a', 'b', 'c']
        if lead:
            # the file starts with a time column, which the user looks at and then drops with a slice before gating by name
            ev = [[i % R if dt == 'I' else float(i % R)] + e for i, e in enumerate(ev)]
            names = ['t'] + names
        fcsgen.write_sample(self.path, ev, names, [R] * len(names), bits=16, datatype=dt, pne=['0,0'] * len(names))
        with warnings.catch_warnings():
            warnings.simplefilter('ignore')
            d = FlowCal.io.FCSData(loadform.arg(self.path))
            if lead:
                d[:, 't']
                d.range('b')
                d = d[:, 1:]
            return d


def gen_part(chk, S):
    plan = [(2, 2, 2), (3, 2, 2)] if chk.quick else [(2, 2, 2), (3, 2, 2), (2, 3, 2)]
    neg = False
    for kx, ky, nev in plan:
        cfg = 'SPECIFICATION Spec\nCONSTANTS KX = %d\nKY = %d\nNEv = %d\nINVARIANT NeverKeepsOutside\n' % (kx, ky, nev)
        res = tlc.require_ok(tlc.run_tlc('Gen_C05', cfg, dump=True), 'Gen_C05')
        chk.add_tlc(res, 'Gen_C05[%dx%d,%d events]' % (kx, ky, nev))
        xe = np.arange(0, 2 * kx + 1, 2, dtype=float)
        ye = np.arange(0, 2 * ky + 1, 2, dtype=float)
        cache = {}
        for idx, st in enumerate(res.dump_states()):
            if st['stage'] != 'done':
                continue
            ev, scn, exp = st['ev'], st['scn'], st['out']
            if chk.quick and scn[0] == 'replay' and (idx + chk.seed) % 3:
                continue
            mode = scn[0]
            pts = np.array(ev, dtype=float).reshape(len(ev), 2)
            for cont in ('array', 'sample'):
                if cont == 'sample':
                    if min(min(e) for e in ev) < 0 or (idx % 5):
                        continue     # samples hold non-negative integers; every 5th scenario
                    key = json.dumps(ev)
                    if key not in cache:
                        cache[key] = S.load(ev)
                    data, ch = cache[key], ['a', 'b']
                else:
                    data, ch = np.concatenate([pts, np.full((len(ev), 1), 7.0)], axis=1), [0, 1]
                kw = dict(channels=ch, bins=[xe, ye], sigma=1.0, full_output=True)
                if mode == 'replay':
                    kw['bin_mask'] = np.array(scn[1], dtype=bool)
                elif mode == 'f0':
                    kw['gate_fraction'] = 0.0
                elif mode == 'f1':
                    kw['gate_fraction'] = 1.0
                elif mode == 'fneg':
                    kw['gate_fraction'] = -0.1
                elif mode == 'fbig':
                    kw['gate_fraction'] = 1.1
                elif mode == 'one-channel':
                    kw['channels'] = ch[:1]
                elif mode == 'three-channels':
                    kw['channels'] = ch + [2 if cont == 'array' else 'c']
                try:
                    with warnings.catch_warnings():
                        warnings.simplefilter('ignore')
                        out = FlowCal.gate.density2d(data, **kw)
                        kw2 = dict(kw)
                        kw2['full_output'] = False
                        short = FlowCal.gate.density2d(data, **kw2)
                    obs = {'k': 'ok', 'mask': np.asarray(out.mask).tolist()}
                except Exception as e:  # noqa
                    out = None
                    obs = {'k': 'err', 'exc': type(e).__name__}
                lab = None
                if exp['k'] == 'err':
                    lab = None if out is None else 'accepted'
                elif out is None:
                    lab = 'raises:' + obs['exc']
                elif obs['mask'] != [bool(b) for b in exp['mask']]:
                    lab = 'mask'
                elif not np.array_equal(np.asarray(out.gated_data), np.asarray(data)[np.asarray(out.mask)]):
                    lab = 'gated!=input[mask]'
                elif not np.array_equal(np.asarray(short), np.asarray(out.gated_data)):
                    lab = 'short!=full'
                if not neg and exp['k'] == 'ok' and any(exp['mask']) and lab is None:
                    chk.negative_control(obs['mask'] != [not b for b in exp['mask']], 'C05 gen comparator insensitive')
                    neg = True
                chk.case(('g', kx, ky, json.dumps(ev), json.dumps(scn), cont),
                         nontrivial=exp['k'] == 'err' or (any(exp['mask']) and not all(exp['mask'])),
                         sample={'grid': [kx, ky], 'events_codes': ev, 'mode': scn, 'expected': exp, 'observed': obs}
                         if chk.traces % 5003 == 11 else None)
                chk.traces += 1
                if lab:
                    chk.violation('C05/gen/%s/%s/%s' % (cont, mode, lab), {'kx': kx, 'ky': ky, 'events': ev, 'mode': scn}, exp, obs)


def trace_part(chk, S, n_examples):
    from hypothesis import given, settings, strategies as st, HealthCheck
    recs, metas = [], []

    @st.composite
    def case(draw):
        kind = draw(st.sampled_from(['tied', 'tied', 'continuous', 'clustered', 'sample', 'near-edge', 'huge-axis']))
        N = draw(st.integers(2, 120))
        seed = draw(st.integers(0, 10 ** 6))
        kx = draw(st.sampled_from([1, 2, 2, 3, 4, 5, 6, 8, 10]))
        ky = draw(st.integers(2, 10))
        binspec = draw(st.sampled_from(['count', 'edges', 'mixture', 'same-edges']))
        f = draw(st.sampled_from([(0, 1), (1, 1), (1, 2), (1, 4), (3, 4), (3, 10), (7, 10), (1, 3), (2, 3), (13, 20), (9, 10),
                                  (1, 10), (1, 100), (99, 100)]))
        f2 = draw(st.sampled_from([(1, 1), (9, 10), (3, 4), (1, 2)]))
        above = draw(st.sampled_from([0, 0, 1]))        # 1: the fraction is a hair (1e-9) ABOVE fn/fd
        sigma = draw(st.sampled_from([0.0, 0.0, 0.5, 1.0, 2.0, 5.0, 10.0, (0.0, 2.0), (1.5, 0.0), (0.8, 2.0), [0.0, 1.0]]))      # 0: no smoothing, many exact density ties
        scale = draw(st.sampled_from(['linear', 'log', 'logicle']))
        return dict(kind=kind, N=N, seed=seed, kx=kx, ky=ky, binspec=binspec, f=f, f2=f2, sigma=sigma, scale=scale, above=above)

    @settings(max_examples=n_examples, deadline=None, database=None, derandomize=True, suppress_health_check=list(HealthCheck))
    @given(case())
    def run(c):
        rnd = np.random.RandomState(c['seed'])
        N, kx, ky = c['N'], c['kx'], c['ky']
        if c['kind'] == 'tied':
            pts = rnd.randint(0, 12, size=(N, 2)).astype(float)
        elif c['kind'] == 'continuous':
            pts = rnd.uniform(-2, 12, size=(N, 2))
        elif c['kind'] == 'near-edge':
            # large integer values; some events one or two units above the last edge (relative distance ~1e-5)
            pts = np.stack([rnd.randint(99960, 100003, size=N), rnd.randint(199950, 200003, size=N)], axis=1).astype(float)
        elif c['kind'] == 'huge-axis':
            # one axis cut into 40,000 bins (legal, if unusual): events spread over the whole axis, most of them far out
            pts = np.stack([np.where(rnd.uniform(size=N) < 0.6, rnd.uniform(820, 1000, size=N), rnd.uniform(0, 1000, size=N)),
                            rnd.uniform(0, 1, size=N)], axis=1)
            pts[: N // 3, 0] = np.round(pts[: N // 3, 0], 0) + 0.0125      # several events share a bin
        elif c['kind'] == 'clustered':
            pts = np.concatenate([rnd.normal(3, 0.7, size=(N // 2, 2)), rnd.normal(8, 1.5, size=(N - N // 2, 2))])
        else:
            pts = rnd.randint(0, 64, size=(N, 2)).astype(float)
        if c['kind'] == 'sample':
            if c['seed'] % 2:
                # a single-precision file with a few readings barely below zero
                pts = pts.copy()
                pts[::7, 0] = -0.001
                pts[3::11, 1] = -0.0005
                data = S.load(pts, dt='F', lead=(c['seed'] % 3 == 0))
            else:
                data = S.load(pts, lead=(c['seed'] % 3 == 1))
            ch = ['a', 'b']
            bins = [kx + 2, ky + 2] if c['binspec'] in ('mixture', 'edges') else kx + 2
            kw = dict(xscale=c['scale'], yscale=c['scale'])
        else:
            third = np.zeros((N, 1))
            if c['seed'] % 3 == 0:          # NaN / inf readings in a channel the gate is NOT applied to
                third[::3, 0] = np.nan
                third[1::5, 0] = np.inf
            data = np.concatenate([pts, third], axis=1)
            ch = [0, 1]
            if c['kind'] == 'near-edge':
                xe = np.linspace(99950, 100000, kx + 1)
                ye = np.linspace(199940, 200000, ky + 1)
            else:
                xe = np.linspace(0, 10, kx + 1)
                ye = np.linspace(1, 11, ky + 1)
            # (a 2-element edge array would be read as a per-axis specification: only for kx >= 2)
            bins = {'count': kx, 'edges': [xe, ye], 'mixture': [kx, ye], 'same-edges': xe if kx >= 2 else [xe, ye]}[c['binspec']]
            if c['kind'] == 'huge-axis':
                xe, ye = np.linspace(0, 1000, 40001), np.array([0.0, 0.5, 1.0])
                bins = [xe, ye] if c['binspec'] in ('edges', 'same-edges') else [40000, ye]
            kw = {}
        fn, fd = c['f']
        above = 1 if (c['above'] and fn < fd) else 0
        f = fn / fd + (1e-9 if above else 0.0)
        fn2, fd2 = c['f2']
        if fn2 * fd < fn * fd2:
            fn2, fd2 = fn, fd
        f_2 = fn2 / fd2 + (1e-9 if (above and fn2 < fd2) else 0.0)
        try:
            with warnings.catch_warnings():
                warnings.simplefilter('ignore')
                bins_arg = [np.array(b) if hasattr(b, '__iter__') else b for b in bins] if isinstance(bins, list) else bins
                out = FlowCal.gate.density2d(data, ch, bins=bins_arg, gate_fraction=f, sigma=c['sigma'], full_output=True, **kw)
        except Exception as e:  # noqa
            recs.append({'k': 'err', 'exc': type(e).__name__, 'kx': 1, 'ky': 1, 'codes': [[1, 1]] * N, 'fn': fn, 'fd': fd, 'above': above, 'nch': 2,
                         'ranks': [[0]], 'binmask': [[False]], 'mask': [False] * N, 'replay': [False] * N, 'perm': [False] * N,
                         'mask2': [True] * N})
            metas.append(dict(c, note='raised ' + type(e).__name__))
            return
        xe, ye = out.bin_edges
        kx2, ky2 = len(xe) - 1, len(ye) - 1
        P = np.asarray(data.view(np.ndarray) if hasattr(data, 'view') else data)[:, :2].astype(float)
        codes = [[code_of(float(p[0]), xe), code_of(float(p[1]), ye)] for p in P]
        try:
          with warnings.catch_warnings():
            warnings.simplefilter('ignore')
            rep = FlowCal.gate.density2d(data, ch, bins=[xe, ye], bin_mask=out.bin_mask, full_output=True)
            perm = rnd.permutation(N)
            pout = FlowCal.gate.density2d(data[perm], ch, bins=[xe, ye], gate_fraction=f, sigma=c['sigma'], full_output=True)
            inv = np.empty(N, dtype=int)
            inv[perm] = np.arange(N)
            out2 = FlowCal.gate.density2d(data, ch, bins=[xe, ye], gate_fraction=f_2, sigma=c['sigma'], full_output=True)
        except Exception as e:  # noqa
            recs.append({'k': 'err', 'exc': type(e).__name__, 'kx': 1, 'ky': 1, 'codes': [[1, 1]] * N, 'fn': fn, 'fd': fd, 'above': above, 'nch': 2,
                         'ranks': [[0]], 'binmask': [[False]], 'mask': [False] * N, 'replay': [False] * N, 'perm': [False] * N,
                         'mask2': [True] * N})
            metas.append(dict(c, note='follow-up call raised ' + type(e).__name__))
            return
        ranks, binmask = ranks_of(codes, kx2, ky2, c['sigma']), np.asarray(out.bin_mask).tolist()
        if kx2 > 64:
            # a grid too large to hand to TLC bin by bin: judged on the sub-grid of the x-bins that hold events (every
            # clause of the specification on a sub-grid follows from the same clause on the grid; the event masks are whole)
            I = sorted({bin_of(cx, kx2) for cx, cy in codes if bin_of(cx, kx2) >= 0}) or [0]
            pos = {b: i for i, b in enumerate(I)}

            def sub_code(cx):
                if cx < 0:
                    return -1
                if cx > 2 * kx2:
                    return 2 * len(I) + 1
                i = pos[bin_of(cx, kx2)]
                return 2 * len(I) if (cx == 2 * kx2 and i == len(I) - 1) else 2 * i + (0 if (cx % 2 == 0 and cx != 2 * kx2) else 1)
            codes = [[sub_code(cx), cy] for cx, cy in codes]
            ranks, binmask, kx2 = [ranks[b] for b in I], [binmask[b] for b in I], len(I)
        recs.append({'k': 'ok', 'kx': kx2, 'ky': ky2, 'codes': codes, 'fn': fn, 'fd': fd, 'above': above, 'nch': 2,
                     'ranks': ranks, 'binmask': binmask,
                     'mask': np.asarray(out.mask).tolist(), 'replay': np.asarray(rep.mask).tolist(),
                     'perm': np.asarray(pout.mask)[inv].tolist(), 'mask2': np.asarray(out2.mask).tolist()})
        metas.append(c)

    run()
    # negative control: a valid record whose bin mask drops its densest kept bin
    ctl = None
    for r in recs:
        if r['k'] == 'ok' and sum(r['mask']) > 0:
            ctl = json.loads(json.dumps(r))
            best = max(((ctl['ranks'][i][j], i, j) for i in range(ctl['kx']) for j in range(ctl['ky']) if ctl['binmask'][i][j]))
            ctl['binmask'][best[1]][best[2]] = False
            break
    if ctl is None:
        raise tlc.MachineryError('C05 trace: no usable record for the negative control')
    recs.append(ctl)
    d0 = tlc.scratch('c05t_')
    tf = os.path.join(d0, 'trace.ndjson')
    with open(tf, 'w') as f:
        for r in recs:
            f.write(json.dumps({k: v for k, v in r.items() if k != 'exc'}) + '\n')
    res = tlc.run_tlc('Trace_C05', 'SPECIFICATION Spec\nPOSTCONDITION AllConsumed\n', workers=1, env={'TRACE_FILE': tf}, timeout=7200)
    if not res.ok:
        raise tlc.MachineryError('Trace_C05 failed: ' + (res.error_text or res.stdout[-2000:]))
    chk.add_tlc(res, 'Trace_C05')
    rejects = {int(m.group(1)): m.group(2) for m in re.finditer(r'<<"REJECT", (\d+), "([^"]+)">>', res.stdout)}
    chk.negative_control(len(recs) in rejects, 'Trace_C05 accepted a bin mask without its densest bin')
    rejects.pop(len(recs), None)
    for i, (r, m) in enumerate(zip(recs[:-1], metas), 1):
        chk.case(('t', core.stable_hash(m)), nontrivial=r['k'] == 'ok' and 0 < sum(r['mask']) < len(r['mask']),
                 sample={'case': m, 'grid': [r['kx'], r['ky']], 'kept_events': sum(r['mask']), 'n_events': len(r['mask'])} if i in (2, 3) else None)
        chk.traces += 1
        if i in rejects:
            one = min(r['kx'], r['ky']) == 1 or (r['k'] == 'err')
            chk.violation('C05/trace/%s/%s%s' % (m['kind'], rejects[i].replace('C05.', ''), ('/' + r.get('exc', '')) if r['k'] == 'err' else ''),
                          m, {'verdict': rejects[i]}, {k: r[k] for k in ('k', 'kx', 'ky', 'fn', 'fd', 'binmask', 'ranks')}, direction='trace')


def main(chk, replay=None):
    chk.rule = ('GEN: all events (<= NEv) on code grids x {every bin mask replayed, f=0, f=1, 4 error conditions} on arrays and '
                'samples; TRACE: hypothesis cases (tied / continuous / clustered / sample-derived bins in 3 scales, 14 fractions, '
                '5 smoothing widths, permutation, second fraction); non-trivial = some but not all events kept, or an error case')
    chk.assumptions = ['TLC, value parser', 'density ranks are an INPUT computed by the harness with the documented gaussian_filter '
                       'call; edge codes by plain comparisons with the returned edges', 'f*n integral: target n or n+1 accepted '
                       '(floating-point product)']
    if replay:
        print(json.dumps(replay, indent=1, default=core.jdefault)[:3000])
        return
    cfg = ('SPECIFICATION Spec\nCONSTANTS KX = 2\nKY = 2\nNEv = 2\nRankMax = %d\nINVARIANT AlgorithmSatisfiesPredicate\n'
           'INVARIANT MonotoneInTarget\nINVARIANT AllAtOne\nINVARIANT NoneOutside\nINVARIANT WholeBins\n') % (1 if chk.quick else 2)
    res = tlc.run_tlc('MC_DensityGate', cfg)
    if not res.ok:
        raise tlc.MachineryError('MC_DensityGate: %s\n%s' % (res.violated, res.stdout[-1500:]))
    chk.add_tlc(res, 'MC_DensityGate')
    S = Samples()
    gen_part(chk, S)
    trace_part(chk, S, 150 if chk.quick else 5000)
    chk.exhaustive = True


if __name__ == '__main__':
    run_driver('C05', main)
