"""C19 - histogram bin edges are increasing, complete and centred on channel values.

MC+GEN spec/HistBins via spec/gen/Gen_C19: the edge grid as exact fractions of the span in the coordinate of
the scale; argument broadcasting; unknown scale refused; TLC checks increasing / covering / centred theorems.
Every scenario is executed with the real FCSData.hist_bins on a raw, an RFI-converted and a MEF-like sample.
Linear edges are compared directly, log edges through log10, logicle edges through the library's own display
transform built per channel (the correctness of that transform is C18, not claimed).
"""
import json
import zlib
import os
import warnings

import numpy as np

from harness import core, tlc, fcsgen, loadform
from harness.core import run_driver

import FlowCal.io  # noqa
import FlowCal.transform  # noqa
import FlowCal.plot  # noqa

RES = [5, 256, 1000]
OVR = {'none': {}, 'T': {'T': 5000.0}, 'Tbig': {'T': 1e6}, 'M': {'M': 5.0}, 'W': {'W': 0.5}, 'TMW': {'T': 20000.0, 'M': 4.0, 'W': 0.3},
       'Tneg': {'T': -5.0}, 'Mzero': {'M': 0.0}, 'Wneg': {'W': -0.1}, 'Wzero': {'W': 0.0}}


def world():
    d = tlc.scratch('c19_')
    path = os.path.join(d, 's.fcs')
    ev = [[0, 0, 0], [4, 255, 999], [2, 100, 500], [1, 17, 333], [3, 254, 1]]
    fcsgen.write_sample(path, ev, ['c1', 'c2', 'c3'], RES, bits=16, pne=['7,0.1', '4,1', '2,0.5'])
    with warnings.catch_warnings():
        warnings.simplefilter('ignore')
        raw = FlowCal.io.FCSData(loadform.arg(path, 1))
        rfi = FlowCal.transform.to_rfi(raw)
        mef = FlowCal.transform.to_mef(raw, None, [lambda x: 2.5 * x] * 3)
    fpath = os.path.join(d, 'f.fcs')
    fev = [[-1.5, -50.0, 0.0], [4.0, 255.0, 999.0], [2.0, 100.5, -3.0], [1.0, 17.0, 333.0], [3.0, 254.0, 1.0]]
    fcsgen.write_sample(fpath, fev, ['c1', 'c2', 'c3'], RES, datatype='F', pne=['0,0', '0,0', '0,0'])
    with warnings.catch_warnings():
        warnings.simplefilter('ignore')
        fneg = FlowCal.io.FCSData(fpath)
    p18 = os.path.join(d, 'r18.fcs')
    fcsgen.write_sample(p18, [[0, 0, 0], [262143, 255, 999], [1000, 100, 500]], ['c1', 'c2', 'c3'], [262144, 256, 1000], bits=32,
                        pne=['1,1', '4,1', '2,0.5'])
    with warnings.catch_warnings():
        warnings.simplefilter('ignore')
        raw18 = FlowCal.io.FCSData(p18)
    W = {'raw': raw, 'rfi': rfi, 'mef': mef, 'float-neg': fneg, 'raw18': raw18}
    history(W, d)
    return W


PNE = [(7.0, 0.1), (4.0, 1.0), (2.0, 0.5)]     # channel 1: offset below 1 and more than five decades: its RFI range starts
                                               # at a POSITIVE value below max/1e5 (log bins keep that limit)


def declared_range(state, col):
    """limits of a channel from the file's declared range and the documented unit laws (not from the object)"""
    res = [262144, 256, 1000] if state == 'raw18' else RES
    lim = np.array([0.0, res[col] - 1.0])
    if state == 'rfi':
        a0, a1 = PNE[col]
        lim = a1 * 10 ** (a0 / float(res[col]) * lim)
    elif state == 'mef':
        lim = 2.5 * lim
    return [float(lim[0]), float(lim[1])]


def history(W, d):
    """Before any bins are asked for, every sample has had a life: views, slices, copies and gated subsets were made
    from it and used (converted, calibrated against with diagnostic plots, their range lists edited in place).  None of
    that may show in the sample's own bins: the scenarios below compare with the DECLARED range."""
    import FlowCal.mef
    import FlowCal.gate
    with warnings.catch_warnings():
        warnings.simplefilter('ignore')
        for name, x in W.items():
            derived = [x.view(), x[:, :], x[1:], x[:, [0, 1, 2]], x.copy(), FlowCal.gate.start_end(x, 0, 1)]
            for k, y in enumerate(derived):
                for c in range(y.shape[1]):
                    r = y.range(c)
                    if isinstance(r, list) and len(r) == 2:
                        r[0] = r[0] + 0.5 + k            # editing the list the derived object's accessor hands out
                        r[1] = r[1] - 0.25
                y.hist_bins(scale='log')
                y.hist_bins(scale='linear')
            if name == 'float-neg':
                # bins are asked for, THEN the events are edited in place (background subtraction): later answers follow
                # the events as they are now
                x.hist_bins(scale='logicle')
                x.hist_bins(0, scale='logicle')
                x[0, 0] = -40.0
                x[2, 2] = -7.5
            if name in ('raw', 'float-neg'):
                # a calibration with diagnostic plots on a view of the sample
                v = x.view()
                try:
                    FlowCal.mef.get_transform_fxn(
                        v, [[1.0, 2.0, 3.0]], ['c2'], clustering_fxn=lambda data, n, **kw: np.arange(data.shape[0]) % n,
                        selection_fxn=None, fitting_fxn=lambda a, b: (lambda z: z, lambda z: z, np.array([1.0]), 's', ['p']),
                        plot=True, plot_dir=os.path.join(d, 'plots_' + name))
                except Exception:  # noqa  (the diagnostic plots themselves belong to C13/C15)
                    pass
                import matplotlib.pyplot as plt
                plt.close('all')


def expected_params(x, col, src, ovr):
    """numbers from the sources the specification names (LogicleParams.Sources)"""
    T = ovr['T'] if src['T'] == 'given' else float(x.range(col)[1])
    M = ovr['M'] if src['M'] == 'given' else max(4.5, 4.5 / np.log10(262144) * np.log10(T))
    if src['W'] == 'given':
        Wd = ovr['W']
    elif src['W'] == 'zero':
        Wd = 0.0
    else:
        r = float(np.min(np.asarray(x[:, col].view(np.ndarray))))
        Wd = max(0.0, (M - np.log10(T / abs(r))) / 2)
    return T, M, Wd


def logicle_forward(y, T, M, W):
    """data value at display coordinate y under the logicle equation the library documents (computed independently of
    FlowCal.plot):  x = T 10^-(M-W) (10^(y-W) - p^2 10^(-(y-W)/p) + p^2 - 1),  p solving W = 2p log10(p)/(p+1)"""
    if W == 0:
        pp = 1.0
    else:
        lo_, hi_ = 1.0, 1e8
        for _ in range(300):
            mid = (lo_ + hi_) / 2
            if 2 * mid * np.log10(mid) / (mid + 1) < W:
                lo_ = mid
            else:
                hi_ = mid
        pp = (lo_ + hi_) / 2
    y = np.asarray(y, dtype=np.float64)
    return T * 10 ** (-(M - W)) * (10 ** (y - W) - pp ** 2 * 10 ** (-(y - W) / pp) + pp ** 2 - 1)


def rfrac(q):
    return q[0] / q[1]


def render_ch(f, neg=False):
    if f['t'] == 'none':
        return None
    # neg: positions written as NEGATIVE indices (counted from the last of the three channels) - another spelling
    el = [('c%d' % c) if n else (c - 1 - 3 if neg else c - 1) for c, n in zip(f['cols'], f['named'])]
    return el[0] if f['t'] == 'scalar' else el


def render_arg(a, conv):
    vals = [conv(v) for v in a['vals']]
    return vals if a['t'] == 'list' else vals[0]


def fp(x):
    return (np.asarray(x.view(np.ndarray)).tobytes(), json.dumps([[float(v) for v in r] for r in x.range()]))


def check_edges(x, col, e, p, ovr, src=None, state=None):
    e = np.asarray(e, dtype=np.float64)
    n = p['n']
    if e.ndim != 1 or len(e) != n + 1:
        return 'count'
    if not np.all(np.isfinite(e)):
        return 'not-finite'
    if not np.all(np.diff(e) > 0):
        return 'not-increasing'
    lo, hi = [float(v) for v in x.range(col)]
    if state is not None and [lo, hi] != declared_range(state, col):
        return 'range-is-not-the-declared-one'
    if p['scale'] == 'linear':
        coord, clo, chi = e, lo, hi
    elif p['scale'] == 'log':
        if not np.all(e > 0):
            return 'log-not-positive'
        lo_eff = min(1.0, hi / 1e5) if p['replaced'] else lo
        coord, clo, chi = np.log10(e), np.log10(lo_eff), np.log10(hi)
        if not (e[0] <= lo_eff and e[-1] >= hi):
            return 'not-covering'
    else:
        if src:
            T, M, Wd = expected_params(x, col, src, ovr)
            neg = bool(np.any(np.asarray(x[:, col].view(np.ndarray)) < 0))
            if (src['W'] == 'from-most-negative-event') != (neg and 'W' not in ovr):
                return 'logicle-W-source'
        else:
            raise tlc.MachineryError('C19: logicle scenario without parameter sources')
        fr = [rfrac(q) for q in p['fracs']] if p['fracs'] else list(np.linspace(rfrac(p['first']), rfrac(p['last']), n + 1))
        ref = logicle_forward(np.array(fr) * float(M), float(T), float(M), float(Wd))
        # (single-precision samples: the library derives W from a float32 minimum)
        rt = 5e-6 if x.dtype == np.float32 else 1e-9
        if not np.allclose(e, ref, rtol=rt, atol=rt * max(1.0, abs(hi))):
            return 'logicle-grid'
        if not ovr and not (e[0] <= lo and e[-1] >= hi):
            return 'not-covering'
        return None
    span = chi - clo
    tol = 1e-11 * max(1.0, abs(clo), abs(chi), abs(span))
    if p['scale'] == 'linear' and not (e[0] <= lo and e[-1] >= hi):
        return 'not-covering'
    if abs(coord[0] - (clo + span * rfrac(p['first']))) > tol or abs(coord[-1] - (clo + span * rfrac(p['last']))) > tol:
        return 'end-edges'
    if p['fracs']:
        ref = np.array([clo + span * rfrac(q) for q in p['fracs']])
        if np.max(np.abs(coord - ref)) > tol:
            return 'grid'
    else:
        d = np.diff(coord)
        if np.max(np.abs(d - span * (rfrac(p['last']) - rfrac(p['first'])) / n)) > tol:
            return 'not-uniform'
        if p['scale'] in ('linear', 'log') and n == p['res']:
            centres = (coord[:-1] + coord[1:]) / 2
            ref = clo + span * np.arange(n) / (n - 1)
            if np.max(np.abs(centres - ref)) > tol:
                return 'not-centred'
    return None


def wide_file(chk):
    """Twelve channels, each with a declared range (and most negative event) of its own: the default bins of every
    channel are those of the same column recorded in a file of its own - bins are a function of the channel's own
    declared range and own events, whatever else the file holds (spec: HistBins takes one channel's parameters)."""
    d = tlc.scratch('c19w_')
    res = [2 ** k for k in range(8, 19)] + [1000]
    names = ['CH%02d' % (i + 1) for i in range(12)]
    for kind in ('int', 'float-neg'):
        if kind == 'int':
            ev = [[0] * 12, [r - 1 for r in res], [r // 3 for r in res], [1] * 12, [r // 2 + 1 for r in res]]
            kw = dict(bits=32)
        else:
            # negative events, a different minimum in every channel (the logicle linear width follows the channel's own)
            ev = [[-(3.0 + 17.5 * j) for j in range(12)], [float(r - 1) for r in res], [r / 3.0 for r in res],
                  [-0.5 * (12 - j) for j in range(12)], [r / 2.0 + 1 for r in res]]
            kw = dict(datatype='F')
        wp = os.path.join(d, 'wide_%s.fcs' % kind)
        fcsgen.write_sample(wp, ev, names, res, pne=['0,0'] * 12, **kw)
        with warnings.catch_warnings():
            warnings.simplefilter('ignore')
            wide = FlowCal.io.FCSData(loadform.arg(wp))
            for j in range(12):
                np_ = os.path.join(d, 'narrow.fcs')
                fcsgen.write_sample(np_, [[e[j], 1] for e in ev], [names[j], 'other'], [res[j], 64], pne=['0,0'] * 2, **kw)
                narrow = FlowCal.io.FCSData(np_)
                lab = None
                if [float(v) for v in wide.range(j)] != [0.0, res[j] - 1.0] or wide.resolution(j) != res[j] or \
                        [float(v) for v in wide.range(names[j])] != [0.0, res[j] - 1.0]:
                    lab = 'declared-range/%r' % (list(wide.range(j)),)
                for scale in ('linear', 'log', 'logicle'):
                    if lab:
                        break
                    want = np.asarray(narrow.hist_bins(0, scale=scale))
                    for how, got in (('position', wide.hist_bins(j, scale=scale)), ('name', wide.hist_bins(names[j], scale=scale)),
                                     ('all', wide.hist_bins(scale=scale)[j]),
                                     ('list', wide.hist_bins([names[(j + 1) % 12], j], scale=scale)[1])):
                        got = np.asarray(got)
                        if got.shape != want.shape or got.tobytes() != want.tobytes():
                            lab = '%s/by-%s/%d-edges-want-%d' % (scale, how, len(got), len(want))
                            break
                chk.case(('c19-wide', kind, j), nontrivial=True)
                chk.traces += 1
                if lab:
                    chk.violation('C19/wide-file/%s/channel-bins-differ-from-the-channel-alone/%s' % (kind, lab.split('/')[0]),
                                  {'file': 'twelve channels, $PnR = %r' % res, 'kind': kind, 'channel': j + 1}, 'bins of the same column recorded alone', lab)
    chk.extra['wide_file'] = {'channels': 12, 'ranges': res}


def main(chk, replay=None):
    chk.rule = ('GEN: 3 sample states x 9 channel forms x nbins {default,1,2,7,16,lists} x scale {linear,log,logicle,lists,'
                'unknown} x logicle overrides; non-trivial = accepted calls with a non-default argument or refused ones')
    chk.assumptions = ['TLC, value parser', 'logicle edges compared with the library display transform built per channel (C18 not claimed)',
                       'coordinates compared to 1e-11 of the span']
    if replay:
        print(json.dumps(replay, indent=1)[:3000])
        return
    W = world()
    wide_file(chk)
    cfg = ('SPECIFICATION Spec\nINVARIANT EdgesIncreasing\nINVARIANT EdgesCover\nINVARIANT CentredSmall\n'
           'INVARIANT UnknownScaleRefused\nINVARIANT SourcesTotal\n')
    res = tlc.require_ok(tlc.run_tlc('Gen_C19', cfg, dump=True), 'Gen_C19')
    chk.add_tlc(res, 'Gen_C19')
    neg = False
    for st in res.dump_states():
        if st['stage'] != 100:
            continue
        state, f, nb, sc, ov = st['scn']
        exp = st['out']
        x = W[state]
        before = fp(x)
        ch = render_ch(f, neg=(zlib.crc32(json.dumps(st['scn']).encode()) % 3 == 0))
        kw = dict(channels=ch, nbins=render_arg(nb, lambda v: None if v == [] else v[0]), scale=render_arg(sc, str))
        kw.update(OVR[ov])
        args_before = repr((kw['channels'], kw['nbins'], kw['scale']))
        try:
            with warnings.catch_warnings():
                warnings.simplefilter('ignore')
                r = x.hist_bins(**kw)
            obs = 'ok'
        except Exception as e:  # noqa
            r, obs = None, 'raises:' + type(e).__name__
        lab = None
        if repr((kw['channels'], kw['nbins'], kw['scale'])) != args_before:
            lab = 'caller-argument-list-changed'
        elif fp(x) != before:
            lab = 'sample-range-mutated'
            # put the range back so that later scenarios see the documented state
            W.update(world())
        elif exp['k'] == 'err':
            lab = None if r is None else 'accepted'
        elif r is None:
            lab = obs
        else:
            req = f['cols'] if f['t'] != 'none' else [1, 2, 3]
            if exp['scalar']:
                lab = 'not-an-array' if isinstance(r, list) else check_edges(x, req[0] - 1, r, exp['per'][0], OVR[ov], exp.get('src'), state)
                results = [r]
            elif not isinstance(r, list) or len(r) != len(exp['per']):
                lab = 'list-shape'
                results = []
            else:
                results = r
                for j, p in enumerate(exp['per']):
                    lab = check_edges(x, req[j] - 1, r[j], p, OVR[ov], exp.get('src'), state)
                    if lab:
                        lab = 'ch%d/' % req[j] + lab
                        break
            if lab is None and not exp['scalar']:
                # asking for several channels returns exactly the per-channel answers
                for j, p in enumerate(exp['per']):
                    single = x.hist_bins(channels=req[j] - 1, nbins=None if p['n'] == p['res'] and
                                         (nb['t'] == 'scalar' and nb['vals'][0] == [] or nb['t'] == 'list' and nb['vals'][j] == [])
                                         else p['n'], scale=p['scale'], **OVR[ov])
                    if np.asarray(single).tobytes() != np.asarray(results[j]).tobytes():
                        lab = 'multi!=per-channel'
                        break
            if lab is None and not neg and exp['per'][0]['scale'] == 'linear' and exp['per'][0]['fracs']:
                bad = json.loads(json.dumps(exp['per'][0]))
                bad['fracs'][1][0] += 1
                chk.negative_control(check_edges(x, (f['cols'] if f['t'] != 'none' else [1])[0] - 1, results[0], bad, {}) is not None,
                                     'C19 comparator accepts a shifted edge')
                neg = True
        chk.case(('c19', json.dumps(st['scn'])), nontrivial=exp['k'] == 'err' or nb['vals'] != [[]] or sc['vals'] != ['logicle'],
                 sample={'scenario': st['scn'], 'expected': {'k': exp['k'], 'per': [{k: p[k] for k in ('n', 'scale', 'first', 'last', 'replaced')} for p in exp['per']]},
                         'observed': obs} if chk.traces % 401 == 5 else None)
        chk.traces += 1
        if lab is not None:
            scs = '+'.join(sorted(set(sc['vals'])))
            chk.violation('C19/%s/%s/%s' % (state, scs, lab), {'scenario': st['scn']}, {'k': exp['k']}, obs)
    if not chk.quick:
        # unbounded companions of the grid theorems, discharged by the TLA+ proof system (extra; the claim stays model checking)
        import shutil
        import subprocess
        d = tlc.scratch('tlaps_')
        shutil.copy(os.path.join(tlc.SPEC_DIR, 'proofs', 'HistBinsProofs.tla'), d)
        try:
            p = subprocess.run(['tlapm', 'HistBinsProofs.tla'], cwd=d, stdout=subprocess.PIPE, stderr=subprocess.STDOUT,
                               universal_newlines=True, timeout=600)
            import re as _re
            m = _re.search(r'All (\d+) obligations? proved', p.stdout)
            chk.extra['tlaps'] = {'module': 'spec/proofs/HistBinsProofs.tla', 'obligations_proved': int(m.group(1)) if m else 0,
                                  'all_proved': bool(m)}
        except Exception as e:  # noqa
            chk.extra['tlaps'] = {'module': 'spec/proofs/HistBinsProofs.tla', 'error': repr(e)[:200]}
    chk.exhaustive = True

    from harness import session
    session.run(chk, 'C19', every=4 if chk.quick else 1)    # spec/Session.tla: the property in every state of analysis sessions

if __name__ == '__main__':
    run_driver('C19', main)
