"""C06 - MEF conversion applies each channel's own standard curve, or refuses.

MC+GEN spec/Units (ToMEF) via spec/gen/Gen_C06: environment actions choose the container (sample, plain
array, the partial callable that get_transform_fxn builds), the listing of sc_channels (every order and
spelling, or absent), the number of curves supplied and the request (none / scalar / every ordered subset
and spelling, incl. uncovered channels).  TLC checks OwnCurve, UncoveredRefused, CountMismatchRefused.
Curves are distinct affine maps, so columns are compared bitwise.
"""
import functools
import json
import warnings

import numpy as np

from harness import core, tlc
from harness.core import run_driver
from harness.conf_C03 import World, fingerprint, R

import FlowCal.io  # noqa
import FlowCal.transform  # noqa


def curve(i):
    return lambda x: (i + 1.0) * x + 10.0 * i


def render(f):
    if f['t'] == 'none':
        return None
    el = [('c%d' % c) if n == 1 else (c - 4 if n == 2 else c - 1) for c, n in zip(f['cols'], f['named'])]
    return el[0] if f['t'] == 'scalar' else el


def check(x, y, terms):
    if not isinstance(y, np.ndarray) or y.shape != x.shape or y.dtype != np.float64:
        return 'shape-or-dtype'
    xv = np.asarray(x.view(np.ndarray)).astype(np.float64)
    yv = np.asarray(y.view(np.ndarray))
    for c, t in enumerate(terms):
        ref = xv[:, c]
        for law in t:
            ref = curve(law['id'])(ref)
        if yv[:, c].tobytes() != ref.tobytes():
            return ('wrong-curve-col%d' % (c + 1)) if t else 'untouched-column-changed'
    if isinstance(x, FlowCal.io.FCSData):
        if type(y) is not type(x):
            return 'class'
        for c, t in enumerate(terms):
            lim = np.array(x.range(c), dtype=np.float64)
            for law in t:
                lim = curve(law['id'])(lim)
            if [float(v) for v in y.range(c)] != lim.tolist():
                return 'range-col%d' % (c + 1)
        if (list(y.channels), y.amplification_type(), y.amplifier_gain(), y.detector_voltage(), y.channel_labels(),
                y.resolution()) != (list(x.channels), x.amplification_type(), x.amplifier_gain(), x.detector_voltage(),
                                    x.channel_labels(), x.resolution()):
            return 'metadata'
    return None


def main(chk, replay=None):
    chk.rule = ('GEN: 3 containers x 31 listings of sc_channels x 3 curve counts x 58 requests; non-trivial = at least one '
                'column converted, or refused because of coverage / count')
    chk.assumptions = ['TLC, value parser', 'curves are affine maps with small integer coefficients: bitwise comparison']
    if replay:
        print(json.dumps(replay, indent=1)[:3000])
        return
    W = World()
    cfg = ('SPECIFICATION Spec\nINVARIANT OwnCurve\nINVARIANT UncoveredRefused\nINVARIANT CountMismatchRefused\n'
           'INVARIANT PairingOrderIrrelevant\n')
    res = tlc.require_ok(tlc.run_tlc('Gen_C06', cfg, dump=True), 'Gen_C06')
    chk.add_tlc(res, 'Gen_C06')
    neg = False
    for st in res.dump_states():
        if st['stage'] != 100:
            continue
        cont, scf, ncurves, req = st['scn']
        exp = st['out']
        x = W.fresh(cont if cont in ('array', 'sample-dupname') else 'sample')
        before = fingerprint(x)
        sc_list = [curve(i + 1) for i in range(ncurves)]
        a_req, a_sc = render(req), render(scf)          # the caller's own argument objects
        args_before = (repr(a_req), repr(a_sc), [id(f) for f in sc_list])
        try:
            with warnings.catch_warnings():
                warnings.simplefilter('ignore')
                if cont == 'partial':
                    fn = functools.partial(FlowCal.transform.to_mef, sc_list=sc_list, sc_channels=a_sc)
                    y = fn(x, a_req)
                else:
                    y = FlowCal.transform.to_mef(x, a_req, sc_list, a_sc)
            obs = 'ok'
        except Exception as e:  # noqa
            y, obs = None, 'raises:' + type(e).__name__
        if fingerprint(x) != before:
            lab = 'input-mutated'
        elif (repr(a_req), repr(a_sc), [id(f) for f in sc_list]) != args_before:
            # the channel lists and the curve list belong to the caller (a calibration keeps them for every later sample)
            lab = 'caller-argument-list-changed'
        elif exp['k'] == 'refused':
            lab = None if y is None else 'accepted'
        elif y is None:
            # positions counted from the end are an "other form": refusing them is acceptable
            lab = None if (2 in scf['named'] or 2 in req['named']) else obs
        else:
            lab = check(x, y, exp['terms'])
            if lab is None and not neg and sum(1 for t in exp['terms'] if t) >= 1:
                bad = json.loads(json.dumps(exp['terms']))
                c = [j for j, t in enumerate(bad) if t][0]
                bad[c][0]['id'] = bad[c][0]['id'] % 3 + 1
                chk.negative_control(check(x, y, bad) is not None, 'C06 comparator accepts another curve')
                neg = True
        chk.case(('c06', json.dumps(st['scn'])), nontrivial=(exp['k'] == 'ok' and any(exp['terms'])) or exp['k'] == 'refused',
                 sample={'scenario': st['scn'], 'expected': exp, 'observed': obs} if chk.traces % 1501 == 7 else None)
        chk.traces += 1
        if lab is not None:
            chk.violation('C06/%s/sc=%s/req=%s/%s' % (cont, scf['t'], req['t'], lab), {'scenario': st['scn']}, exp, obs)
    from harness import session
    session.run(chk, 'C06')          # spec/Session.tla: the property inside whole analysis sessions
    chk.exhaustive = True


if __name__ == '__main__':
    run_driver('C06', main)
