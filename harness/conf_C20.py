"""C20 - a sample survives copying, viewing and pickling in any analysis state.

MC+GEN spec/Heap: object store with reference semantics; TLC checks NoSharedMeta, BufSharing, Independent,
ReadOnlyPreserves, DupBornEqual on all histories of <= MaxOps operations and dumps every state.  Each history
is replayed on real FCSData objects (integer and float files carrying every optional keyword); after the
history the real store is projected (container identities by id(), buffer sharing by np.shares_memory,
mutation counts each object sees) and must equal the specification's store; every duplicate must be born
with a fingerprint equal to its source (values, dtype, shape, every attribute).
File level: two loads of a file compare equal; files differing in one event or one keyword compare unequal.
"""
import json
import os
import warnings

import numpy as np

from harness import core, tlc, fcsgen, heapreplay as hr
from harness.core import run_driver

import FlowCal.io  # noqa


def one_step(objs, how, o, protos, store=None):
    lab = detail = None
    src = objs[o - 1]
    if how == 'load':
        objs.append(store.load())
    elif how.startswith('mutate_'):
        hr.mutate(src, how[7:])
    elif how == 'readonly':
        before = [hr.fingerprint(x) for x in objs]
        a1 = hr.readonly_calls(src)
        a2 = hr.readonly_calls(src)
        if [hr.fingerprint(x) for x in objs] != before:
            lab, detail = 'readonly-changed-store', how
        elif a1 != a2:
            lab, detail = 'query-answer-depends-on-earlier-query', how
    else:
        for proto in (protos if how == 'pickle' else [2]):
            new = hr.derive(src, how, proto)
            if how in ('copy', 'copycopy', 'deepcopy', 'view', 'pickle'):
                f1, f2 = hr.fingerprint(src), hr.fingerprint(new)
                if f1 != f2:
                    bad = [k for k in f1 if f1[k] != f2[k]]
                    lab, detail = 'dup-not-equal/%s/%s' % (how, '+'.join(bad)), {'proto': proto}
                if type(new) is not type(src):
                    lab, detail = 'dup-class/%s' % how, type(new).__name__
        objs.append(new)
    return lab, detail


def replay_state(chk, store, st, pid, idx, protos):
    hist = st['hist']
    if store.from_handle and any(h[0] == 'pickle' for h in hist):
        return None       # an open file handle cannot be pickled by design
    base = store.load()
    if idx % 2 == 0:
        hr.fingerprint(base)          # every attribute asked once before the history starts (every other history)
    base00 = float(base[0, 0])
    objs = [base]
    lab = None
    detail = None
    for step, (how, o) in enumerate(hist):
        try:
            lab, detail = one_step(objs, how, o, protos, store)
        except Exception as e:  # noqa  - the library raised inside an operation of the history
            lab, detail = 'operation-raised/%s/%s' % (how, type(e).__name__), str(e)[:120]
        if lab:
            break
    if lab is None:
        real = hr.project(objs, base00)
        spec = hr.project_spec(st)
        if real != spec:
            lab, detail = 'store/%s' % hist[-1][0], {'real': real, 'spec': spec}
    else:
        real = None
    chk.case((pid, json.dumps(hist)), nontrivial=len(hist) >= 1,
             sample={'hist': hist, 'spec_store': hr.project_spec(st), 'real_store': real} if idx % 2999 == 17 else None)
    chk.traces += 1
    if lab:
        chk.violation('%s/%s' % (pid, lab), {'hist': hist}, hr.project_spec(st), detail)
    return lab


def heap_part(chk, pid, store, thin=1):
    cfgt = ('SPECIFICATION Spec\nCONSTANTS MaxOps = %d\nMaxObjs = 4\nINVARIANT NoSharedMeta\nINVARIANT BufSharing\n'
            'PROPERTY Independent\nPROPERTY ReadOnlyPreserves\nPROPERTY DupBornEqual\nPROPERTY LoadPristine\n')
    depth = 2 if chk.quick else 3
    res = tlc.require_ok(tlc.run_tlc('Heap', cfgt % depth, dump=True), 'Heap')
    chk.add_tlc(res, 'Heap[MaxOps=%d]' % depth)
    idx = 0
    neg = False
    for st in res.dump_states():
        if not st['hist']:
            continue
        if store.from_handle and (any(h[0] == 'pickle' for h in st['hist']) or (idx % 7 and chk.quick)):
            continue      # an open file handle cannot be pickled by design; handle-loaded samples: other derivations only
        if thin > 1 and not any(h[0] in ('pickle', 'copy', 'deepcopy', 'copycopy', 'view') for h in st['hist']):
            continue      # thinned stores: histories with a duplication only
        idx += 1
        protos = [idx % 5, 5] if chk.quick else [0, 1, 2, 3, 4, 5]
        replay_state(chk, store, st, pid, idx, protos)
        if not neg and len(st['objs']) >= 2:
            spec = hr.project_spec(st)
            bad = json.loads(json.dumps(spec))
            bad[1]['ri'] = bad[0]['ri']
            chk.negative_control(bad != spec, 'store comparison is insensitive to a shared inner range list')
            neg = True
    if chk.quick:
        res = tlc.run_tlc('Heap', cfgt.replace('PROPERTY Independent\nPROPERTY ReadOnlyPreserves\nPROPERTY DupBornEqual\nPROPERTY LoadPristine\n', '') % 3,
                          simulate=(1500, 5), workers=1, seed=chk.seed)
        if res.violated or 'Error' in res.stdout:
            raise tlc.MachineryError('Heap simulate: ' + res.stdout[-1500:])
        chk.add_tlc(res, 'Heap[MaxOps=3,simulate]')
        seen = set()
        for beh in res.sim_behaviours():
            if not beh:
                continue
            st = beh[-1][1]
            key = json.dumps(st['hist'])
            if key in seen or len(st['hist']) < 3:
                continue
            seen.add(key)
            idx += 1
            replay_state(chk, store, st, pid, idx, [idx % 5, 5])


def file_level(chk):
    d = tlc.scratch('c20f_')
    names = ['c1', 'c2']

    def mk(fn, events, dt='I', extra=(), label='L'):
        p = os.path.join(d, fn)
        fcsgen.write_sample(p, events, names, [1024, 1024], bits=16, datatype=dt, pne=['0,0', '4,1'], pns=[label, None],
                            extra=list(extra))
        return p
    cases = []
    # (datatype, bits, range, events, the same events with ONE event changed by the smallest representable amount)
    f32 = np.float32
    tiny = [('I', 16, 1024, [[1, 2], [3, 4]], [[1, 2], [3, 5]]),
            ('I', 32, 2 ** 30, [[654321, 2], [3, 900000001]], [[654322, 2], [3, 900000001]]),
            ('F', 32, 1024, [[812.125, 2.0], [3.0, 4.25]], [[float(np.nextafter(f32(812.125), f32(1e9))), 2.0], [3.0, 4.25]]),
            ('F', 32, 1024, [[float('nan'), 2.0], [3.0, 1e-30]], [[float('nan'), 2.0], [3.0, 0.0]]),
            ('D', 64, 1024, [[1.5, float('nan')], [float('inf'), 123456789.125]],
             [[1.5, float('nan')], [float('inf'), float(np.nextafter(123456789.125, 1e12))]])]
    for dt, bits, rng, ev, ev_min in tiny:
        tag = '%s%d%s' % (dt, bits, 'nan' if any(v != v for r in ev for v in r) else '')

        def mkb(fn, events, label='L'):
            p = os.path.join(d, fn)
            fcsgen.write_sample(p, events, names, [rng, rng], bits=bits, datatype=dt, pne=['0,0', '0,0'], pns=[label, None])
            return p
        a = mkb('a_%s.fcs' % tag, ev)
        ev2 = [list(r) for r in ev]
        ev2[1][0] = 9 if dt == 'I' else 9.5
        b = mkb('b_%s.fcs' % tag, ev2)
        bm = mkb('bm_%s.fcs' % tag, ev_min)
        c = mkb('c_%s.fcs' % tag, ev, label='M')
        with warnings.catch_warnings():
            warnings.simplefilter('ignore')
            fa1, fa2 = FlowCal.io.FCSFile(a), FlowCal.io.FCSFile(a)
            da1, da2 = FlowCal.io.FCSData(a), FlowCal.io.FCSData(a)
            # the documented file-like form: two loads through ONE open handle (the first leaves it at the end of the
            # file), and a load through a handle the caller has already read from
            same_handle = 'ok'
            try:
                with open(a, 'rb') as h:
                    h1, h2 = FlowCal.io.FCSData(h), FlowCal.io.FCSData(h)
                    g1, g2 = FlowCal.io.FCSFile(h), FlowCal.io.FCSFile(h)
                    h.seek(0)
                    h.read(6)
                    h3 = FlowCal.io.FCSData(h)
                fps = [hr.fingerprint(x) for x in (h1, h2, h3)]
                for fp_ in fps:
                    fp_.pop('infile', None)
                ref = hr.fingerprint(da1)
                ref.pop('infile', None)
                if not (fps[0] == fps[1] == fps[2] == ref and bool(g1 == g2)):
                    same_handle = 'loads through one handle differ'
            except Exception as e:  # noqa
                same_handle = 'raised %s: %s' % (type(e).__name__, str(e)[:80])
        # b, bm and c live at other paths; compare through a copy at the same path to isolate content
        import shutil
        same_path = os.path.join(d, 'x_%s.fcs' % tag)

        def at_same_path(src):
            shutil.copy(src, same_path)
            return FlowCal.io.FCSFile(same_path)
        f_same1 = at_same_path(a)
        f_event = at_same_path(b)
        f_min = at_same_path(bm)
        f_kw = at_same_path(c)
        f_same2 = at_same_path(a)
        differs = not np.array_equal(np.asarray(f_same1.data), np.asarray(f_min.data), equal_nan=True)
        obs = {'two_loads_equal': bool(fa1 == fa2) and not bool(fa1 != fa2) and bool(f_same1 == f_same2),
               'hash_equal': hash(fa1) == hash(fa2),
               'event_differs_unequal': bool(f_same1 != f_event) and not bool(f_same1 == f_event),
               'smallest_event_difference_unequal': differs and bool(f_same1 != f_min) and not bool(f_same1 == f_min),
               'keyword_differs_unequal': bool(f_same1 != f_kw) and not bool(f_same1 == f_kw),
               'fcsdata_loads_equal': hr.fingerprint(da1) == hr.fingerprint(da2),
               'loads_through_one_open_handle_equal': same_handle == 'ok'}
        # the first load still holds the events of the file it was loaded from (the path was rewritten four times since)
        first = np.asarray(f_same1.data, dtype=np.float64)
        wrote = np.asarray(ev, dtype=np.float64)
        obs['first_load_unchanged_by_later_rewrites_of_the_path'] = bool(first.shape == wrote.shape and np.array_equal(
            first.astype(np.float32 if dt == 'F' else np.float64), wrote.astype(np.float32 if dt == 'F' else np.float64), equal_nan=True))
        if open(a, 'rb').read() == open(bm, 'rb').read():
            raise tlc.MachineryError('C20 file level: the minimally changed file %s has the same bytes' % tag)
        if same_handle != 'ok':
            obs['one_handle_detail'] = same_handle
        chk.case(('file', tag), nontrivial=True, sample={'file_level': tag, 'observed': obs})
        chk.traces += 1
        for k, v in obs.items():
            if v is False:
                chk.violation('C20/file/%s/%s' % (tag, k), {'datatype': dt, 'bits': bits, 'events': repr(ev), 'changed': repr(ev_min)},
                              {k: True}, obs)


def main(chk, replay=None):
    chk.rule = ('GEN: every history of <= MaxOps operations from {13 derivations, 3 writes through accessors, read-only '
                'calls} on <= 4 objects (exhaustive at depth 2 quick / 3 thorough, sampled depth 3 in quick), on an integer '
                'and a float file; all pickle protocols; file-level equality cases incl. NaN data')
    chk.assumptions = ['TLC, value parser', 'container identity observed with id() while all objects are kept alive',
                       'buffer sharing observed with np.shares_memory']
    if replay:
        print(json.dumps(replay, indent=1, default=core.jdefault)[:3000])
        return
    heap_part(chk, 'C20', hr.Store(float_file=False))
    heap_part(chk, 'C20', hr.Store(float_file=False, from_handle=True))
    heap_part(chk, 'C20', hr.Store(minimal=True), thin=7 if chk.quick else 1)      # a file with the required keywords only
    heap_part(chk, 'C20', hr.Store(time_channel=True), thin=7 if chk.quick else 1)      # acquisition time derived from the events
    if not chk.quick:
        heap_part(chk, 'C20', hr.Store(float_file=True))
    file_level(chk)
    from harness import session
    session.run(chk, 'C20')          # spec/Session.tla: the property inside whole analysis sessions
    chk.exhaustive = True


if __name__ == '__main__':
    run_driver('C20', main)
