"""C17 - acquisition metadata reflects the file's keywords and never blocks loading.

MC+GEN spec/FCSMeta via spec/gen/Gen_C17: environment actions pick the state of each optional keyword
(absent / well-formed in each accepted format / ill-formed kinds); the final action computes the
attributes the decision table dictates; TLC checks IllMeansAbsent, Precedence, StandardWins on it.
Every completed scenario is rendered into a small FCS file (RENDER tables below), loaded with the real
FCSData, and the projected attributes are compared with the spec's.
"""
import datetime
import json
import os
import time
import warnings

from harness import core, tlc, fcsgen
from harness.core import run_driver

import FlowCal.io  # noqa

MONTHS = ['Jan', 'Feb', 'Mar', 'Apr', 'May', 'Jun', 'Jul', 'Aug', 'Sep', 'Oct', 'Nov', 'Dec']


def rat_text(f):
    n, d = f
    if d == 1:
        return str(n)
    s = '%.6f' % (n / d)
    return s.rstrip('0')


def render_num(k):
    if k['s'] == 'absent':
        return None
    if k['s'] == 'ill':
        return {'alpha': 'abc', 'blank': ' ', 'comma': '0,03'}[k['v']]
    return rat_text(k['f'])


def render_time(k):
    if k['s'] == 'absent':
        return None
    if k['s'] == 'ill':
        return {'two-fields': '12:00', 'alpha': 'aa:bb:cc', 'tt-alpha': '12:00:00:xx', 'tt-inf': '12:00:00:inf', 'tt-huge': '12:00:00:1e999', 'tt-nan': '12:00:00:nan', 'five-fields': '12:00:00:00:00',
                'blank': ' '}[k['v']]
    f = k['f']
    base = '%02d:%02d:%02d' % (f[0], f[1], f[2])
    if k['v'] == 'hms':
        return base
    if k['v'] == 'hms60':
        return base + ':%02d' % f[3]
    if k['v'] == 'hmscc':
        return base + '.%02d' % f[3]
    if k['v'] == 'hmsc':
        return base + '.%d' % f[3]
    raise ValueError(k)


def render_date(k, case):
    if k['s'] == 'absent':
        return None
    if k['s'] == 'ill':
        return {'slashes': '2015/01/01', 'badmonth': '01-Foo-2015', 'blank': ' '}[k['v']]
    a, m, b = k['f']
    mon = MONTHS[m - 1]
    mon = [mon, mon.upper(), mon.lower()][case % 3]
    fmt = {'dby': '%02d-%s-%02d', 'dbY': '%02d-%s-%04d', 'ybd': '%02d-%s-%02d', 'Ybd': '%04d-%s-%02d'}[k['v']]
    return fmt % (a, mon, b)


def close(obs, num, den):
    exp = num / den
    return isinstance(obs, float) and abs(obs - exp) <= 1e-12 * max(1.0, abs(exp))


def proj_stamp(x):
    if x is None:
        return {'date': [], 't': []}
    if isinstance(x, datetime.datetime):
        return {'date': [x.year, x.month, x.day], 't': [x.hour, x.minute, x.second, x.microsecond]}
    if isinstance(x, datetime.time):
        return {'date': [], 't': [x.hour, x.minute, x.second, x.microsecond]}
    return {'date': 'type:' + type(x).__name__, 't': []}


class Files(object):
    def __init__(self):
        self.dir = tlc.scratch('c17_')
        self.path = os.path.join(self.dir, 'm.fcs')

    def load(self, pairs, events, version, bits=16, datatype='I'):
        import re
        D = len(events[0])
        data = fcsgen.pack_events(events, [{'I': bits, 'F': 32, 'D': 64}[datatype]] * D, False, datatype)
        # in FCS3.x the optional keywords may live in the supplemental TEXT segment, which may or may not start with the
        # delimiter: every third file keeps them in the primary segment, the others move them (led / bare)
        self.n = getattr(self, 'n', 0) + 1
        supp = None
        lead = True
        if version != 'FCS2.0' and self.n % 3:
            req = re.compile(r'^\$(BYTEORD|DATATYPE|MODE|NEXTDATA|PAR|TOT|P\d+[BRNE])$')
            opt = [kv for kv in pairs if not req.match(kv[0])]
            if opt:
                pairs = [kv for kv in pairs if req.match(kv[0])]
                supp = opt
                lead = self.n % 3 == 1
        blob, _ = fcsgen.build(version=version, pairs=pairs, data=data, supp_pairs=supp, supp_lead=lead)
        with open(self.path, 'wb') as f:
            f.write(blob)
        with warnings.catch_warnings():
            warnings.simplefilter('ignore')
            return FlowCal.io.FCSData(self.path)


def timing_case(chk, F, scn, out, idx):
    ts, tt, bt, et, date, tch, ver = scn
    names = ['FSC', 'SSC'] + ([tch] if tch != 'none' else [])
    decoy = tch == 'none' and idx % 3 == 0
    if decoy:
        # names are kept as written: ` Time` (with a blank) is a channel of that name, not the time channel - the file has
        # none, and the duration comes from the clock keywords as the specification says for "none"
        names = ['FSC ', ' SSC', ' Time']
    D = len(names)
    ev = [[5, 9, 7][:D] if D == 3 else [5, 9], [6, 10, 100][:D], [7, 11, 507][:D]]
    extra = []
    for key, val in (('$TIMESTEP', render_num(ts)), ('TIMETICKS', render_num(tt)), ('$BTIM', render_time(bt)),
                     ('$ETIM', render_time(et)), ('$DATE', render_date(date, idx))):
        if val is not None:
            extra.append((key, val))
    # the numeric type of the file is a rendering dimension: integer, double and single precision.  In floating-point
    # files the time stamps carry fractions (first + 0.75, last + 0.25): the span is half a tick short of the
    # specification's integral one, and the expectation below is adjusted by exactly that
    dt = ['I', 'D', 'I', 'F'][idx % 4] if (D == 3 and not decoy) else 'I'
    if dt != 'I':
        ev = [[float(v) for v in r] for r in ev]
        ev[0][2] += 0.75
        ev[-1][2] += 0.25
    pairs = fcsgen.sample_pairs(3, names, [{'I': 16, 'F': 32, 'D': 64}[dt]] * D, [1024] * D, pne=['0,0'] * D, extra=extra, datatype=dt)
    obs = {}
    # the process's time zone is a rendering dimension: the keywords are wall-clock readings of the instrument, so the
    # derived attributes must not depend on where the analysis runs.  POSIX TZ strings (no tzdata needed); the third one
    # switches to summer time on 3 February at 10:30 and back on 31 December at 10:30 - inside the acquisitions of the
    # specification's two dates (3-Feb-2015 and 31-Dec-1999, clocks 10:xx / 11:xx)
    os.environ['TZ'] = TZS[idx % len(TZS)]
    time.tzset()
    try:
        d = F.load(pairs, ev, 'FCS' + ver, datatype=dt)
    except Exception as e:  # noqa
        return {'load': 'raises:' + type(e).__name__}, 'load-raises'
    finally:
        os.environ['TZ'] = 'UTC'
        time.tzset()
    os.environ['TZ'] = TZS[idx % len(TZS)]
    time.tzset()
    try:
        return _timing_obs(d, obs, names, out, dt)
    finally:
        os.environ['TZ'] = 'UTC'
        time.tzset()


TZS = ['UTC', 'NZST-12NZDT,M9.5.0,M4.1.0/3', 'XST8XDT,J34/10:30,J365/10:30', 'EST5EDT,M3.2.0,M11.1.0', 'IST-5:30']


def _timing_obs(d, obs, names, out, dt):
    obs['time_step'] = d.time_step
    if list(d.channels) != names:
        return {'channels': list(d.channels)}, 'channel-names-not-as-written'
    obs['start'] = proj_stamp(d.acquisition_start_time)
    obs['end'] = proj_stamp(d.acquisition_end_time)
    try:
        a = d.acquisition_time
        obs['acq'] = None if a is None else float(a)
    except Exception as e:  # noqa
        obs['acq'] = 'raises:' + type(e).__name__
    bad = None
    e = out['time_step']
    if (e == [] and obs['time_step'] is not None) or (e != [] and not close(obs['time_step'], e[0], e[1])):
        bad = 'time_step'
    elif obs['start'] != out['start']:
        bad = 'start'
    elif obs['end'] != out['end']:
        bad = 'end'
    else:
        q = out['acq']
        if q['k'] == 'none':
            ok = obs['acq'] is None
        elif q['k'] == 'channel':
            if dt == 'I':
                ok = close(obs['acq'], q['ticks'] * q['step'][0], q['step'][1])
            else:
                exp = (2 * q['ticks'] - 1) * q['step'][0] / (2.0 * q['step'][1])
                ok = isinstance(obs['acq'], float) and abs(obs['acq'] - exp) <= (1e-6 if dt == 'F' else 1e-12) * max(1.0, abs(exp))
        else:
            ok = close(obs['acq'], q['sec'] * 1000000 + q['us'], 1000000)
        if not ok:
            bad = 'acquisition_time/' + q['k'] + ('/raises' if isinstance(obs['acq'], str) else '')
    return obs, bad


def kw_class(scn_kw):
    return scn_kw['s'] + (':' + scn_kw['v'] if scn_kw['s'] == 'ill' else '')


def detector_case(chk, F, scn, out, idx, group):
    D = 12
    names = ['C%d' % (i + 1) for i in range(D)]
    n = scn[0]
    extra = []
    pnv = [str(100 + i) for i in range(D)]
    png = [str(1 + i) for i in range(D)]
    pns = [None] * D
    pne = ['0,0'] * D
    rng = [1024] * D
    if group == 'detector':
        _, creator, v, w, g, c = scn
        pnv[n - 1] = render_det(v)
        png[n - 1] = render_det(g)
        cre = {'none': None, 'cellquest': 'CellQuest Pro 5.2.1', 'flowjo': 'FlowJoCollectorsEdition 7.5.110.7',
               'other': 'SomeSoft 1.0'}[creator]
        if cre:
            extra.append(('CREATOR', cre))
        if w['s'] != 'absent':
            extra.append(('BD$WORD%d' % (12 + n), render_det(w)))
        if c['s'] != 'absent':
            extra.append(('CytekP%02dG' % n, render_det(c)))
        # decoys: the neighbouring channels' vendor keywords must not be picked up
        extra.append(('BD$WORD%d' % (12 + (n % D) + 1), '999'))
        extra.append(('CytekP%02dG' % ((n % D) + 1), '99'))
    else:
        _, lab, amp, R, style = scn
        pns[n - 1] = ('Lbl%d' % lab['f'][0]) if lab['s'] == 'well' else None

        def spelled(f):
            t = rat_text(f)
            if style == 'decimal':
                return t if '.' in t else t + '.0'
            if style == 'padded':
                return (t if '.' in t else t + '.') + '00'
            if style == 'spaced':
                return ' ' + t
            return t
        pne[n - 1] = '%s,%s' % (spelled(amp[0]), spelled(amp[1]))
        rng[n - 1] = R
    pairs = fcsgen.sample_pairs(2, names, [32] * D, rng, pne=pne, png=png, pnv=pnv, pns=pns, extra=extra)
    ev = [[i + 1 for i in range(D)], [i + 2 for i in range(D)]]
    try:
        d = F.load(pairs, ev, 'FCS3.0', bits=32)
    except Exception as e:  # noqa
        return {'load': 'raises:' + type(e).__name__}, 'load-raises'
    ch = names[n - 1]
    obs = {}
    bad = None

    def same(o, e):
        return (e == [] and o is None) or (e != [] and close(o, e[0], e[1]))
    if group == 'detector':
        obs['volt'] = d.detector_voltage(ch)
        obs['gain'] = d.amplifier_gain(ch)
        if not same(obs['volt'], out['volt']):
            bad = 'detector_voltage'
        elif not same(obs['gain'], out['gain']):
            bad = 'amplifier_gain'
        # the other channels keep their own standard values
        elif any(d.detector_voltage(names[i]) != float(100 + i) or d.amplifier_gain(names[i]) != float(1 + i)
                 for i in range(D) if i != n - 1):
            bad = 'other-channel'
    else:
        obs['label'] = d.channel_labels(ch)
        obs['amp'] = d.amplification_type(ch)
        obs['rng'] = d.range(ch)
        obs['res'] = d.resolution(ch)
        obs['name'] = d.channels[n - 1]
        e = out
        if (e['label'] == [] and obs['label'] is not None) or (e['label'] != [] and obs['label'] != 'Lbl%d' % e['label'][0]):
            bad = 'channel_labels'
        elif not (isinstance(obs['amp'], tuple) and len(obs['amp']) == 2 and close(float(obs['amp'][0]), *e['amp'][0])
                  and close(float(obs['amp'][1]), *e['amp'][1])):
            bad = 'amplification_type'
        elif [float(x) for x in obs['rng']] != [float(x) for x in e['rng']]:
            bad = 'range'
        elif obs['res'] != e['res'] or not isinstance(obs['res'], int):
            bad = 'resolution'
        elif obs['name'] != ch:
            bad = 'channels'
    return obs, bad


def render_det(k):
    if k['s'] == 'absent':
        return None
    if k['s'] == 'ill':
        return {'alpha': 'high', 'blank': ' '}[k['v']]
    return rat_text(k['f'])


def run_group(chk, F, group, neg):
    cfg = ('SPECIFICATION Spec\nCONSTANTS Group = "%s"\nINVARIANT IllMeansAbsent\nINVARIANT Precedence\n'
           'INVARIANT StandardWins\n') % group
    res = tlc.require_ok(tlc.run_tlc('Gen_C17', cfg, dump=True), 'Gen_C17[%s]' % group)
    chk.add_tlc(res, 'Gen_C17[%s]' % group)
    idx = 0
    for st in res.dump_states():
        if st['stage'] != 100:
            continue
        scn, out = st['scn'], st['out']
        idx += 1
        if group.startswith('timing'):
            obs, bad = timing_case(chk, F, scn, out, idx)
            label = 'ts=%s,tt=%s,btim=%s,etim=%s,date=%s,timech=%s' % (
                kw_class(scn[0]), kw_class(scn[1]), kw_class(scn[2]), kw_class(scn[3]), kw_class(scn[4]),
                'yes' if scn[5] != 'none' else 'no')
            if not neg[0] and out['time_step'] != [] and bad is None:
                o2 = json.loads(json.dumps(out))
                o2['time_step'] = [o2['time_step'][0] + 1, o2['time_step'][1]]
                # comparator must notice a wrong expectation
                e = o2['time_step']
                chk.negative_control(not close(obs['time_step'], e[0], e[1]), 'C17 comparator accepts a wrong time step')
                neg[0] = True
        else:
            obs, bad = detector_case(chk, F, scn, out, idx, group)
            label = 'ch=%d,' % scn[0] + ','.join(kw_class(x) if isinstance(x, dict) else str(x) for x in scn[1:])
        nontrivial = any(isinstance(x, dict) and x['s'] != 'absent' for x in scn)
        chk.case((group, json.dumps(scn)), nontrivial=nontrivial,
                 sample={'group': group, 'scenario': scn, 'expected': out, 'observed': obs} if idx % 1999 == 3 else None)
        chk.traces += 1
        if bad is not None:
            chk.violation(classify(group, scn, bad), {'group': group, 'scenario': scn}, out, obs)


def classify(group, scn, bad):
    """class label computed from the scenario (spec vocabulary) and the failing attribute"""
    if group.startswith('timing'):
        ts, tt, bt, et, date, tch, ver = scn
        if bad == 'load-raises':
            why = []
            if ts['s'] == 'ill':
                why.append('timestep-ill')
            if ts['s'] == 'absent' and tt['s'] == 'ill':
                why.append('timeticks-ill')
            if (bt['s'] == 'ill' and bt['v'] == 'tt-alpha') or (et['s'] == 'ill' and et['v'] == 'tt-alpha'):
                why.append('time-60ths-nonnumeric')
            return 'C17/load-raises/' + ('+'.join(why) or 'other')
        if bad.startswith('acquisition_time'):
            return 'C17/%s/timech=%s,step=%s,date=%s' % (bad, 'yes' if tch != 'none' else 'no',
                                                         'none' if (ts['s'] != 'well' and not (ts['s'] == 'absent' and tt['s'] == 'well')) else 'yes',
                                                         'yes' if date['s'] == 'well' else 'no')
        return 'C17/%s' % bad
    return 'C17/%s/%s' % (group, bad)


def main(chk, replay=None):
    chk.rule = ('GEN: product of keyword states (absent / each accepted format / ill-formed kinds) for the timing keywords, '
                'and per channel n in {1,2,10,12} of a 12-channel file for the detector keywords; non-trivial = at '
                'least one optional keyword present')
    chk.assumptions = ['TLC, value parser', 'rendering tables in conf_C17.py (fixed, documented)',
                       'floats compared with the spec rationals to 1e-12 relative']
    if replay:
        print(json.dumps(replay, indent=1)[:3000])
        return
    F = Files()
    neg = [False]
    groups = ['timing', 'detector', 'channel'] if chk.quick else ['timing', 'timing-a', 'timing-b', 'detector', 'channel']
    for g in groups:
        run_group(chk, F, g, neg)
    if not neg[0]:
        raise tlc.MachineryError('C17: negative control never ran')
    chk.exhaustive = True


if __name__ == '__main__':
    run_driver('C17', main)
