"""Replay of spec/Session.tla histories (an analysis session on one loaded sample) on the real library.

After EVERY step of a history the real object is projected to the specification's vocabulary -
which file channel each column holds and in which units (identified by comparing the column with the
documented law of each unit applied to the recorded events), which recorded events are present in
which order, the range limits of every column, the per-column metadata - and compared with the state
the specification reaches.  A mismatch is attributed to the properties the step belongs to:

    pick / slicec / rows   -> C04   (values and metadata follow the selected columns / rows)
    rfi / rfi_all          -> C03   (values, other channels untouched), C07 (limits)
    mef                    -> C06   (values, refusals), C07 (limits)
    hl / hl_all            -> C08   (documented predicate with range defaults), C07 (gating commutes)
    se                     -> C08
    dup                    -> C20   (copy, deepcopy, view, pickle equal the source)
    untouched input object -> C13

Each property's driver calls run(chk, pid): only mismatches attributed to pid are reported there.
"""
import copy
import json
import zlib
import os
import pickle
import warnings

import numpy as np

from harness import tlc, fcsgen, heapreplay, loadform

import FlowCal.io
import FlowCal.transform
import FlowCal.gate
import FlowCal.mef
import FlowCal.stats

NAMES = ['FSC-H', 'FL1-H', 'FL2-H', 'FL3-H']
R = [1024, 256, 1000, 512]
PNE = ['0,0', '4.0,0.0', '2,0.5', '0,0']       # channel 2: log amplifier with the non-standard zero offset
PNG = ['2', None, None, None]
PNV = ['400', '500', '600', '700']
PNS = ['fsc', None, 'red', None]
EVENTS = [[0, 60, 0, 5], [50, 255, 30, 6], [70, 20, 999, 7], [10, 100, 900, 8], [500, 88, 99, 9], [77, 1, 500, 10]]
SAT = [{1}, {2}, {1, 3}, set()]                # spec constant Sat
MEF_CH = [2, 3]                                # spec constant MefChans (1-based file channels)
AMP = [(0.0, 0.0), (4.0, 1.0), (2.0, 0.5), (0.0, 0.0)]
GAIN = [2.0, None, None, None]

ATTR = {'pick': {'C04'}, 'slicec': {'C04'}, 'rows': {'C04'}, 'rfi': {'C03', 'C07'}, 'rfi_all': {'C03', 'C07'},
        'mef': {'C06', 'C07'}, 'hl': {'C08', 'C07'}, 'hl_all': {'C08', 'C07'}, 'se': {'C08'}, 'dup': {'C20'}}


def curve(ch):
    """standard curves the stub 'fit' hands out (strictly increasing)"""
    if ch == 2:
        return lambda x: 3.0 * x + 1.0
    return lambda x: 5.0 * x ** 1.25 + 2.0


def unit_law(ch, u):
    """documented value of a raw reading x of file channel ch (1-based) in units u"""
    a0, a1 = AMP[ch - 1]
    r = R[ch - 1]
    g = GAIN[ch - 1] or 1.0

    def rfi(x):
        x = np.asarray(x, dtype=np.float64)
        return x / g if a0 == 0 else a1 * 10 ** (a0 / float(r) * x)
    if u == 0:
        return lambda x: np.asarray(x, dtype=np.float64)
    if u == 1:
        return rfi
    sc = curve(ch)
    return lambda x: sc(rfi(x))


class World(object):
    def __init__(self, want_bins=False):
        d = tlc.scratch('sess_')
        self.path = os.path.join(d, 's.fcs')
        fcsgen.write_sample(self.path, EVENTS, NAMES, R, bits=16, pne=PNE, png=PNG, pnv=PNV, pns=PNS,
                            extra=[('$BTIM', '10:00:00'), ('$ETIM', '10:05:00')])
        assert [set(i + 1 for i, e in enumerate(EVENTS) if e[c] in (0, R[c] - 1)) for c in range(4)] == SAT
        self.expected = {(ch, u): unit_law(ch, u)([e[ch - 1] for e in EVENTS]) for ch in range(1, 5) for u in range(3)}
        self.exp_range = {(ch, u): unit_law(ch, u)(np.array([0.0, R[ch - 1] - 1.0])) for ch in range(1, 5) for u in range(3)}
        for ch in range(1, 5):                 # every column identifies its events and its units
            for u in range(3):
                assert len(set(self.expected[(ch, u)].tolist())) == len(EVENTS)
        with warnings.catch_warnings():
            warnings.simplefilter('ignore')
            beads = FlowCal.io.FCSData(self.path)
            # the calibration: real get_transform_fxn with stub clustering and fit; curves listed in the
            # opposite order to the file's columns, channels by name
            self.mef_order = [3, 2]
            mefv = [[10.0 * ch + k for k in range(3)] for ch in self.mef_order]
            mefv[0][1] = None            # the first-listed channel's middle bead has no manufacturer value; the other channel's has
            own = {self.mef_order[0]: [mefv[0][0], mefv[0][2]], self.mef_order[1]: list(mefv[1])}

            def fit(fl_rfi, fl_mef):
                # the stub 'fit' hands out the channel's standard curve - if it was given exactly that channel's own known
                # values (a channel's curve is made from its own beads, whatever the other channels left out)
                ch = int(fl_mef[0] // 10)
                if [float(v) for v in fl_mef] != own[ch] or len(fl_rfi) != len(fl_mef):
                    return (lambda x: 0.0 * x - 1.0), (lambda x: 0.0 * x - 1.0), np.array([1.0]), 'stub', ['p']
                return curve(ch), curve(ch), np.array([1.0]), 'stub', ['p']
            names_arg = [NAMES[ch - 1] for ch in self.mef_order]
            self.to_mef = FlowCal.mef.get_transform_fxn(
                beads, mefv, names_arg,
                clustering_fxn=lambda data, n, **kw: np.arange(data.shape[0]) % n,
                selection_fxn=None, fitting_fxn=fit)
            # the caller goes on using its own lists (here: puts them in another order); the function it was handed is
            # a calibration of its own
            names_arg.reverse()
            mefv.reverse()

            self.ref_bins = {}
            if not want_bins:
                return
            # reference bins: what a pristine sample in each units answers (C19: bins are a function of channel and units)
            rfi = FlowCal.transform.to_rfi(beads)
            mef = self.to_mef(rfi, [NAMES[ch - 1] for ch in MEF_CH])
            for u, x in ((0, beads), (1, rfi), (2, mef)):
                for ch in range(1, 5):
                    if u == 2 and ch not in MEF_CH:
                        continue
                    for scale in ('linear', 'log', 'logicle'):
                        self.ref_bins[(ch, u, scale)] = np.asarray(x.hist_bins(NAMES[ch - 1], scale=scale)).tobytes()

    def load(self, k=0):
        with warnings.catch_warnings():
            warnings.simplefilter('ignore')
            return FlowCal.io.FCSData(loadform.arg(self.path, k))     # from its path, an open handle, a file-like object


def spell(o, L, sp):
    """positions (1-based, current layout) -> the channel argument as the user would write it"""
    out = []
    for k, p in enumerate(L):
        name = o.channels[p - 1]
        if sp == 'name' or (sp == 'mixed' and k % 2 == 0) or (sp.startswith('m:') and sp[2 + k] == 'n'):
            out.append(name)
        else:
            out.append(p - 1)
    return out


def apply_step(W, o, step):
    """-> (new object or None, raised exception or None)"""
    op, A, sp = step
    with warnings.catch_warnings():
        warnings.simplefilter('ignore')
        try:
            if op == 'pick':
                L = spell(o, A, sp)
                return o[:, L], None
            if op == 'slicec':
                return o[:, A[0]:A[1]], None
            if op == 'rows':
                k = A[0]
                if k == 1:
                    return o[1:], None
                if k == 2:
                    return o[:-1], None
                if k == 3:
                    return o[::2], None
                if k == 4:
                    ids = identify_rows(W, o)
                    return o[np.array([i is not None and i % 2 == 0 for i in ids])], None
                if k == 5:
                    return o[::-1], None
                return o[[-1, 0]], None
            if op == 'rfi':
                L = spell(o, A, sp)
                return FlowCal.transform.to_rfi(o, L[0] if len(L) == 1 and sp in ('pos', 'm:p') else L), None
            if op == 'rfi_all':
                return FlowCal.transform.to_rfi(o), None
            if op == 'mef':
                L = spell(o, A, sp)
                return W.to_mef(o, L[0] if len(L) == 1 and sp in ('name', 'm:n') else L), None
            if op == 'hl':
                L = spell(o, A, sp)
                return FlowCal.gate.high_low(o, channels=L[0] if len(L) == 1 and sp in ('name', 'm:n') else L), None
            if op == 'hl_all':
                return FlowCal.gate.high_low(o), None
            if op == 'se':
                return FlowCal.gate.start_end(o, num_start=A[0], num_end=A[1]), None
            if op == 'dup':
                k = A[0]
                if k == 1:
                    return o.copy(), None
                if k == 2:
                    return copy.deepcopy(o), None
                if k == 3:
                    return o.view(), None
                return pickle.loads(pickle.dumps(o, protocol=2 + (o.shape[0] % 4))), None
        except Exception as e:  # noqa
            return None, e
    raise ValueError(op)


def identify_col(W, o, j):
    """-> (file channel, units, origin events) of column j, or None"""
    name = o.channels[j]
    if name not in NAMES:
        return None
    ch = NAMES.index(name) + 1
    col = np.asarray(o.view(np.ndarray))[:, j].astype(np.float64)
    units, rows = set(), None
    for u in range(3):
        exp = W.expected[(ch, u)]
        ids = []
        for v in col:
            hit = np.nonzero(exp == v)[0]
            if len(hit) != 1:
                hit = np.nonzero(np.isclose(exp, v, rtol=1e-13, atol=0))[0]
            if len(hit) != 1:
                ids = None
                break
            ids.append(int(hit[0]) + 1)
        if ids is not None:
            units.add(u)
            rows = ids
    return (ch, units, rows) if units else (ch, None, None)


def identify_rows(W, o):
    got = identify_col(W, o, 0)
    return got[2] if got and got[2] is not None else [None] * o.shape[0]


def compare(W, o, st_cols, st_rows, pid=None):
    """-> list of (field, detail) mismatches between the real sample and the specification's state"""
    bad = []
    if not isinstance(o, FlowCal.io.FCSData) or o.ndim != 2:
        return [('values', 'result is %s with %d dimensions' % (type(o).__name__, getattr(o, 'ndim', -1)))]
    if o.shape != (len(st_rows), len(st_cols)):
        return [('values', 'shape %r, specification %r' % (o.shape, (len(st_rows), len(st_cols))))]
    if list(o.channels) != [NAMES[c[0] - 1] for c in st_cols]:
        return [('meta', 'channels %r, specification %r' % (list(o.channels), [NAMES[c[0] - 1] for c in st_cols]))]
    for j, (ch, u) in enumerate(st_cols):
        got = identify_col(W, o, j)
        if got is None or got[1] is None:
            bad.append(('values', 'column %d (%s): values follow no unit law of that channel' % (j, NAMES[ch - 1])))
            continue
        if u not in got[1]:
            bad.append(('values', 'column %d (%s) is in units %r, specification %d' % (j, NAMES[ch - 1], sorted(got[1]), u)))
        elif got[2] != list(st_rows):
            bad.append(('rows', 'column %d holds events %r, specification %r' % (j, got[2], list(st_rows))))
        rng = o.range(j)
        exp = W.exp_range[(ch, u)]
        if not (len(rng) == 2 and float(rng[0]) == float(exp[0]) and float(rng[1]) == float(exp[1])):
            bad.append(('range', 'column %d (%s, units %d): limits %r, an event at the original limits has %r' %
                        (j, NAMES[ch - 1], u, list(rng), exp.tolist())))
        meta = (o.amplification_type(j), o.amplifier_gain(j), o.detector_voltage(j), o.resolution(j), o.channel_labels(j))
        want = (AMP[ch - 1], GAIN[ch - 1], float(PNV[ch - 1]), R[ch - 1], PNS[ch - 1])
        if meta != want:
            bad.append(('meta', 'column %d (%s): metadata %r, file says %r' % (j, NAMES[ch - 1], meta, want)))
        # the same by NAME (every object of a session gets asked by name, as user code does)
        nm = NAMES[ch - 1]
        try:
            by_name = (o.amplification_type(nm), o.amplifier_gain(nm), o.detector_voltage(nm), o.resolution(nm), o.channel_labels(nm),
                       [float(v) for v in o.range(nm)])
        except Exception as e:  # noqa
            by_name = 'raises %s' % type(e).__name__
        # (judged in the C04 run; in the other runs the queries are only MADE, so that a session goes on and the
        #  property's own steps meet whatever state the queries left behind)
        if pid in (None, 'C04') and by_name != meta + ([float(v) for v in rng],):
            bad.append(('name', 'column %d: asked by name %r the metadata are %r, by position %r' % (j, nm, by_name, meta)))
    if bad and not (pid == 'C19' and all(b[0] == 'range' for b in bad)):
        return bad          # (limits that do not follow the data speak against C07; what they do to the bins against C19)
    if pid == 'C12' and len(st_rows) >= 1:
        ev_before = np.asarray(o.view(np.ndarray)).tobytes()
        # statistics of the sample in this state = their definitions on the recorded events present, by name and position
        with warnings.catch_warnings():
            warnings.simplefilter('ignore')
            for j, (ch, u) in enumerate(st_cols):
                vals = W.expected[(ch, u)][[r - 1 for r in st_rows]]
                srt = np.sort(vals)
                n = len(vals)
                defs = {'mean': float(np.sum(vals) / n),
                        'median': float(srt[n // 2] if n % 2 else (srt[n // 2 - 1] + srt[n // 2]) / 2.0)}
                if np.all(vals > 0):
                    lg = np.log(vals.astype(np.float64))
                    defs['gmean'] = float(np.exp(np.sum(lg) / n))
                    defs['gstd'] = float(np.exp(np.sqrt(np.sum((lg - np.sum(lg) / n) ** 2) / n)))
                for stat, want in defs.items():
                    for spelled in (j, NAMES[ch - 1]):
                        got = getattr(FlowCal.stats, stat)(o, spelled)
                        if np.ndim(got) != 0:
                            return [('stats', '%s of the single column %r is not a scalar (shape %r)' % (stat, spelled, np.shape(got)))]
                        got = float(got)
                        if abs(got - want) > (1e-9 if stat in ('gmean', 'gstd') else 1e-12) * max(1.0, abs(want)):
                            return [('stats', '%s of column %r: %r, definition on the events present %r' % (stat, spelled, got, want))]
            allm = np.asarray(FlowCal.stats.mean(o), dtype=float)
            per = [FlowCal.stats.mean(o, j) for j in range(len(st_cols))]
            if any(np.ndim(x) != 0 for x in per):
                return [('stats', 'mean of a single column given by position is not a scalar')]
            per = np.array([float(x) for x in per])
            if allm.shape != per.shape or not np.array_equal(allm, per):
                return [('stats', 'mean of all channels %r differs from the per-channel answers %r' % (allm.tolist(), per.tolist()))]
            FlowCal.stats.gstd(o) if len(st_cols) and all(np.all(W.expected[(c, u)][[r - 1 for r in st_rows]] > 0) for c, u in st_cols) else None
            if np.asarray(o.view(np.ndarray)).tobytes() != ev_before:
                return [('stats', 'taking statistics changed the events of the sample')]
    if pid == 'C19':
        with warnings.catch_warnings():
            warnings.simplefilter('ignore')
            for j, (ch, u) in enumerate(st_cols):
                for scale in ('linear', 'log') + (('logicle',) if len(st_rows) == 6 else ()):   # logicle W depends on the events present
                    got = np.asarray(o.hist_bins(j, scale=scale)).tobytes()
                    if got != W.ref_bins[(ch, u, scale)]:
                        return bad + [('bins', '%s bins of column %d (%s, units %d) differ from those of a pristine sample in the same units' %
                                 (scale, j, NAMES[ch - 1], u))]
    return bad


FIELD_PROPS = {'range': {'C07'}, 'meta': {'C04'}}


def props_of(op, field):
    """which properties a mismatch of `field` after a step `op` speaks against"""
    base = set(ATTR[op])
    if field == 'range':
        # limits that no longer follow the data speak against C07 after ANY step (a copy or pickle of a converted sample
        # is a sample, too)
        return {'C07'} if op in ('rfi', 'rfi_all', 'mef') else base | {'C07'}
    if field == 'meta':
        return base | {'C04'} if op in ('pick', 'slicec', 'rows') else base
    if field == 'name':
        return {'C04'}
    if field == 'stats':
        return {'C12'}
    if field == 'bins':
        return {'C19'}
    if field in ('values', 'rows', 'raised', 'accepted'):
        return base - ({'C07'} if op in ('rfi', 'rfi_all', 'mef') else set())
    return base


def start(W, init_unit, k=0):
    o = W.load(k)
    if init_unit:
        with warnings.catch_warnings():
            warnings.simplefilter('ignore')
            o = FlowCal.transform.to_rfi(o)
    return o, [[i, init_unit] for i in range(1, 5)], list(range(1, 7))


def replay(W, st, init_unit=0, pid=None):
    """-> None or (props, label, detail, step index)"""
    hist = st['hist']
    # (a sample loaded from an open file cannot be deep-copied or pickled - the handle cannot, by design: those
    #  histories load from the path)
    deep = any(h[0] == 'dup' and h[1][0] in (2, 4) for h in hist)
    o, cols, rows = start(W, init_unit, 0 if deep else zlib.crc32(json.dumps(hist).encode()))
    for nm in NAMES:                      # the freshly loaded sample is asked by name too, as user code does
        o.range(nm)
    # the specification's state after each prefix is recomputed by the same step functions in Python only to
    # know where a mismatch STARTS; the verdict for the full history is against the dumped TLC state
    for k, step in enumerate(hist):
        op = step[0]
        before = heapreplay.fingerprint(o)
        new, exc = apply_step(W, o, step)
        if heapreplay.fingerprint(o) != before:
            return {'C13'}, 'input-changed/%s' % op, 'the sample handed to step %d was modified' % k, k
        last = k == len(hist) - 1
        exp_err = last and st['res'] == 'err'
        if not last:
            # intermediate refusals: the spec keeps the state and goes on
            cols2, rows2, err2 = py_step(cols, rows, step)
        else:
            cols2, rows2, err2 = st['cols'], st['rows'], exp_err
        if exc is not None:
            if err2:
                cols, rows = cols2, rows2
                continue
            return props_of(op, 'raised'), 'raised/%s/%s' % (op, type(exc).__name__), str(exc)[:160], k
        if err2:
            return props_of(op, 'accepted'), 'accepted/%s' % op, 'the step is refused in the specification', k
        bad = compare(W, new, cols2, rows2, pid)
        if bad:
            mine = [b for b in bad if pid in props_of(op, b[0])]
            field, detail = (mine or bad)[0]
            return props_of(op, field), '%s/%s' % (op, field), detail, k
        if op == 'dup':
            f1, f2 = heapreplay.fingerprint(o), heapreplay.fingerprint(new)
            diff = [x for x in f1 if f1[x] != f2[x]]
            if diff:
                return {'C20'}, 'dup-not-equal/%d/%s' % (step[1][0], '+'.join(diff)), '', k
        o, cols, rows = new, cols2, rows2
    return None


def py_step(cols, rows, step):
    """Python twin of the Session step functions, used only for the prefixes of a history (the final state is
    TLC's); cross-checked against TLC's dumped state for every history whose steps all succeed."""
    op, A, sp = step
    cols = [list(c) for c in cols]
    rows = list(rows)
    if op == 'pick':
        return [cols[p - 1] for p in A], rows, False
    if op == 'slicec':
        return cols[A[0]:A[1]], rows, False
    if op == 'rows':
        k = A[0]
        r2 = {1: rows[1:], 2: rows[:-1], 3: rows[::2], 4: [e for e in rows if e % 2 == 0], 5: rows[::-1],
              6: [rows[-1], rows[0]]}[k]
        return cols, r2, False
    if op in ('rfi', 'rfi_all'):
        S = set(A) if op == 'rfi' else set(range(1, len(cols) + 1))
        return [[c[0], 1] if i + 1 in S else c for i, c in enumerate(cols)], rows, False
    if op == 'mef':
        if all(cols[p - 1][0] in MEF_CH for p in A) and all(any(c[0] == m for c in cols) for m in MEF_CH):
            return [[c[0], 2] if i + 1 in set(A) else c for i, c in enumerate(cols)], rows, False
        return cols, rows, True
    if op in ('hl', 'hl_all'):
        S = A if op == 'hl' else range(1, len(cols) + 1)
        return cols, [e for e in rows if all(e not in SAT[cols[p - 1][0] - 1] for p in S)], False
    if op == 'se':
        if A[0] + A[1] > len(rows):
            return cols, rows, True
        return cols, rows[A[0]:len(rows) - A[1]], False
    return cols, rows, False


CFG = ('SPECIFICATION Spec\nCONSTANTS MaxOps = %d\nInitUnit = %d\nINVARIANT TypeOK\nINVARIANT ColsDistinct\nINVARIANT RowsDistinct\n'
       'INVARIANT MefOnlyCalibrated\nINVARIANT NeverEmpty\nINVARIANT GateCommutes\nINVARIANT GateIdempotent\n'
       'INVARIANT GateSequential\nPROPERTY UnitsMonotone\nPROPERTY ErrFrame\nPROPERTY RowsShrink\nPROPERTY ConvKeepsRows\nPROPERTY ApplyAgrees\n')


def relevant(pid, hist):
    """histories in which the property's own steps occur"""
    ops = {h[0] for h in hist}
    want = {'C03': {'rfi', 'rfi_all'}, 'C04': {'pick', 'slicec', 'rows'}, 'C06': {'mef'}, 'C07': {'rfi', 'rfi_all', 'mef'},
            'C08': {'hl', 'hl_all', 'se'}, 'C20': {'dup'}, 'C13': ops, 'C12': ops, 'C19': ops}[pid]
    return bool(ops & want)


_W = None
_PID = None


def _work(arg):
    st, init_unit = arg
    hist = st['hist']
    c, r = [[i, init_unit] for i in range(1, 5)], list(range(1, 7))
    e = False
    for h in hist:
        c, r, e = py_step(c, r, h)
    twin_ok = [list(x) for x in c] == [list(x) for x in st['cols']] and list(r) == list(st['rows']) and e == (st['res'] == 'err')
    out = replay(_W, st, init_unit, _PID) if twin_ok else None
    if out is not None:
        out = (sorted(out[0]), out[1], out[2], out[3])
    return twin_ok, out


def run(chk, pid, n_sim=None, depth=None, init_units=(0, 1), every=1):
    """all histories of <= 2 steps (exhaustive), sampled longer ones, from a raw and from an all-RFI sample;
    report what speaks against pid"""
    global _W, _PID
    _PID = pid
    import multiprocessing as mp
    _W = W = World(want_bins=(pid == 'C19'))
    stats = {'histories': 0, 'foreign_mismatch': 0, 'max_len': 0, 'by_len': {}}
    n_sim = n_sim or (1500 if chk.quick else 6000)
    depth = depth or (5 if chk.quick else 7)
    items = []
    for iu in init_units:
        res = tlc.require_ok(tlc.run_tlc('Session', CFG % (2, iu), dump=True), 'Session')
        chk.add_tlc(res, 'Session[MaxOps=2,InitUnit=%d]' % iu)
        for st in res.dump_states():
            if st['hist'] and relevant(pid, st['hist']):
                items.append((st, iu))
        # (the quadratic gate theorems are checked exhaustively at depth 2 above and on sampled deep states in thorough)
        res = tlc.run_tlc('Session', ('SPECIFICATION Spec\nCONSTANTS MaxOps = %d\nInitUnit = %d\nINVARIANT TypeOK\nINVARIANT ColsDistinct\n'
                                      'INVARIANT MefOnlyCalibrated\n' + ('' if chk.quick else 'INVARIANT GateIdempotent\n')) % (depth, iu),
                          simulate=(n_sim, depth + 1), workers=1, seed=chk.seed + iu)
        if res.violated or 'Error' in res.stdout:
            raise tlc.MachineryError('Session simulate: ' + res.stdout[-1500:])
        chk.add_tlc(res, 'Session[MaxOps=%d,InitUnit=%d,simulate]' % (depth, iu))
        seen = set()
        for beh in res.sim_behaviours():
            for _, st in beh:
                key = json.dumps(st['hist'])
                if key in seen or len(st['hist']) < 3 or not relevant(pid, st['hist']):
                    continue
                seen.add(key)
                items.append((st, iu))
    if every > 1:            # a deterministic share of the histories (the seed rotates which)
        items = [it for k, it in enumerate(items) if (k + chk.seed) % every == 0]
    with mp.get_context('fork').Pool(min(16, os.cpu_count() or 1)) as pool:
        results = pool.map(_work, items, chunksize=64)
    neg = False
    for (st, iu), (twin_ok, out) in zip(items, results):
        hist = st['hist']
        if not twin_ok:
            raise tlc.MachineryError('session.py_step disagrees with Session.tla on %r' % (hist,))
        stats['histories'] += 1
        stats['max_len'] = max(stats['max_len'], len(hist))
        stats['by_len'][len(hist)] = stats['by_len'].get(len(hist), 0) + 1
        for h in hist:
            stats.setdefault('steps_replayed', {})[h[0]] = stats.get('steps_replayed', {}).get(h[0], 0) + 1
        chk.case(('session', iu, json.dumps(hist)), nontrivial=len(hist) >= 2,
                 sample={'session': hist, 'init_unit': iu, 'spec_state': {'cols': st['cols'], 'rows': st['rows'], 'res': st['res']}}
                 if stats['histories'] % 4001 == 7 else None)
        chk.traces += 1
        if out is not None:
            props, label, detail, k = out
            if pid in props:
                chk.violation('%s/session/%s' % (pid, label), {'session': hist, 'init_unit': iu, 'failing_step': k},
                              {'cols': st['cols'], 'rows': st['rows'], 'res': st['res']}, detail)
            else:
                stats['foreign_mismatch'] += 1
                stats.setdefault('foreign', {}).setdefault(label, [0, hist, detail])[0] += 1
        elif not neg and len(hist) == 2 and st['res'] == 'ok' and len(set(st['rows'])) >= 2:
            o, _, _ = start(W, iu)
            for h in hist:
                o, _ = apply_step(W, o, h)
            wrong_rows = list(st['rows'][1:]) + [st['rows'][0]]
            chk.negative_control(bool(compare(W, o, st['cols'], wrong_rows)), 'session comparison accepts a permuted event order')
            neg = True
    # vacuity guard: every kind of step of the specification was actually replayed
    missing = [op for op in ATTR if not stats.get('steps_replayed', {}).get(op)]
    if missing:
        raise tlc.MachineryError('Session: steps never replayed: %r' % missing)
    if not chk.quick and pid == 'C13':
        # unbounded companion (extra): the structural invariants of Session are inductive (Apalache, sessions of any length)
        from harness import apalache
        chk.extra['apalache'] = apalache.inductive('SessionInd', indinit='IndInit')
    stats['recorded_sessions'] = trace_run(chk, pid)
    chk.extra.setdefault('session', stats)
    return stats


# ---- TRACE direction: random sessions of the real library, judged by spec/trace/Trace_Session -------------------------
TRACE_FIELD = {'refused': 'raised', 'accepted': 'accepted', 'shape': 'values', 'channel': 'meta', 'units': 'values',
               'rows': 'rows', 'range': 'range', 'meta': 'meta'}


def project(W, o):
    """the real sample in the vocabulary of Trace_Session"""
    cols, rows, meta_ok = [], None, True
    for j in range(o.shape[1]):
        got = identify_col(W, o, j)
        if got is None:
            cols.append({'ch': 0, 'us': [], 'rus': []})
            continue
        ch, us, r = got
        if us is not None:
            if rows is None:
                rows = r
            elif rows != r:
                us = None                      # this column holds other events than the first one: follows no law of the state
        rng = o.range(j)
        rus = [u for u in range(3) if len(rng) == 2 and float(rng[0]) == float(W.exp_range[(ch, u)][0]) and
               float(rng[1]) == float(W.exp_range[(ch, u)][1])]
        cols.append({'ch': ch, 'us': sorted(us) if us else [], 'rus': rus})
        nm = NAMES[ch - 1]
        want = (AMP[ch - 1], GAIN[ch - 1], float(PNV[ch - 1]), R[ch - 1], PNS[ch - 1])
        try:
            meta_ok = meta_ok and all((o.amplification_type(x), o.amplifier_gain(x), o.detector_voltage(x), o.resolution(x),
                                       o.channel_labels(x)) == want for x in (j, nm)) and \
                [float(v) for v in o.range(nm)] == [float(v) for v in rng]
        except Exception:  # noqa
            meta_ok = False
    if rows is None:
        rows = [0] * o.shape[0]
    return cols, rows, bool(meta_ok)


def enabled_steps(rnd, cols, rows, deep=True):
    """one random step whose assumptions (Session.Pre) hold in the state (cols, rows)"""
    n = len(cols)

    def poslist(ok):
        cand = [i + 1 for i in range(n) if ok(cols[i])]
        if not cand:
            return None
        k = rnd.randint(1, len(cand))
        return rnd.sample(cand, k)
    for _ in range(50):
        op = rnd.choice(['pick', 'slicec', 'rows', 'rfi', 'rfi_all', 'mef', 'hl', 'hl_all', 'se', 'dup', 'pick', 'rfi', 'mef', 'hl'])
        if op in ('pick', 'hl'):
            A = poslist(lambda c: True)
        elif op == 'rfi':
            A = poslist(lambda c: c[1] == 0)
        elif op == 'mef':
            A = poslist(lambda c: c[1] == 1)
        elif op == 'rfi_all':
            A = [] if all(c[1] == 0 for c in cols) else None
        elif op == 'hl_all':
            A = []
        elif op == 'slicec':
            a = rnd.randint(0, n - 1)
            A = [a, rnd.randint(a + 1, n)]
        elif op == 'rows':
            k = rnd.randint(1, 6)
            A = [k] if len(rows) >= 2 and len(py_step(cols, rows, ('rows', [k], 'pos'))[1]) >= 1 else None
        elif op == 'se':
            A = [rnd.randint(0, 3), rnd.randint(0, 3)]
        else:
            A = [rnd.randint(1, 4) if deep else rnd.choice([1, 3])]
        if A is None:
            continue
        sp = 'pos'
        if op in ('pick', 'rfi', 'mef', 'hl'):
            sp = 'm:' + ''.join(rnd.choice('np') for _ in A)
        return op, A, sp
    return 'dup', [1], 'pos'


def record_session(arg):
    sid, seed = arg
    import random
    rnd = random.Random(seed)
    W = _W
    iu = rnd.randint(0, 1)
    o, cols, rows = start(W, iu, seed)
    pc, pr, pm = project(W, o)
    out = [{'sid': sid, 'k': 0, 'iu': iu, 'op': 'start', 'A': [], 'out': 'ok', 'cols': pc, 'rows': pr, 'meta_ok': pm,
            'input_same': True, 'dup_equal': True}]
    for k in range(1, rnd.randint(3, 14) + 1):
        # (deep copies and pickles only of samples loaded from a path: an open handle cannot be pickled, by design)
        op, A, sp = enabled_steps(rnd, cols, rows, deep=loadform.FORMS[seed % len(loadform.FORMS)] in ('path', 'linkpath'))
        before = heapreplay.fingerprint(o)
        new, exc = apply_step(W, o, (op, A, sp))
        same = heapreplay.fingerprint(o) == before
        rec = {'sid': sid, 'k': k, 'iu': iu, 'op': op, 'A': A, 'sp': sp, 'input_same': same, 'dup_equal': True}
        if exc is not None or not isinstance(new, FlowCal.io.FCSData) or new.ndim != 2:
            rec.update({'out': 'err' if exc is not None else 'ok', 'cols': [], 'rows': [], 'meta_ok': True,
                        'detail': ('%s: %s' % (type(exc).__name__, exc))[:160] if exc is not None else 'not a 2-D sample'})
        else:
            pc, pr, pm = project(W, new)
            rec.update({'out': 'ok', 'cols': pc, 'rows': pr, 'meta_ok': pm})
            if op == 'dup':
                f2 = heapreplay.fingerprint(new)
                rec['dup_equal'] = all(before[x] == f2[x] for x in before)
            o = new
        out.append(rec)
        cols, rows, _ = py_step(cols, rows, (op, A, sp))
    return out


def trace_run(chk, pid, n=None):
    import multiprocessing as mp
    import re
    n = n or (250 if chk.quick else 4000)
    with mp.get_context('fork').Pool(min(16, os.cpu_count() or 1)) as pool:
        sessions = pool.map(record_session, [(i, chk.seed * 1000003 + i) for i in range(n)], chunksize=16)
    recs = [r for s in sessions for r in s]
    # negative control (made up, independent of the library): a faultless start record, then a step `o[1:]` recorded
    # with two events in the wrong order - the trace specification must reject exactly that line
    okcols = [{'ch': c, 'us': [0], 'rus': [0]} for c in range(1, 5)]
    base = {'sid': n, 'iu': 0, 'out': 'ok', 'cols': okcols, 'meta_ok': True, 'input_same': True, 'dup_equal': True}
    recs += [dict(base, k=0, op='start', A=[], rows=[1, 2, 3, 4, 5, 6]),
             dict(base, k=1, op='rows', A=[1], sp='pos', rows=[3, 2, 4, 5, 6])]
    tf = os.path.join(tlc.scratch('sesstr_'), 'trace.ndjson')
    with open(tf, 'w') as f:
        for r in recs:
            f.write(json.dumps(r) + '\n')
    res = tlc.run_tlc('Trace_Session', 'SPECIFICATION TSpec\nCONSTANTS MaxOps = 1000\nInitUnit = 0\nINVARIANT TColsDistinct\n'
                      'INVARIANT TMefOnlyCalibrated\nPOSTCONDITION AllConsumed\n', workers=1, env={'TRACE_FILE': tf})
    if not res.ok:
        raise tlc.MachineryError('Trace_Session failed: ' + (res.error_text or res.stdout[-2000:]))
    chk.add_tlc(res, 'Trace_Session')
    rejects = {int(m.group(1)): m.group(2) for m in re.finditer(r'<<"REJECT", (\d+), "([^"]+)">>', res.stdout)}
    chk.negative_control(rejects.get(len(recs)) == 'rows.rows' and (len(recs) - 1) not in rejects,
                         'Trace_Session does not reject (exactly) the record with two events in the wrong order')
    rejects.pop(len(recs), None)
    foreign = 0
    for ln, verdict in sorted(rejects.items()):
        rec = recs[ln - 1]
        op, _, clause = verdict.partition('.')
        if op == 'driver':
            raise tlc.MachineryError('Trace_Session: %s at line %d: %r' % (verdict, ln, rec))
        if op == 'start':
            # the session's first sample is not what the specification starts from: an all-RFI start is the conversion of
            # every channel of the loaded sample; a raw start is the loaded sample itself (values and metadata of the file)
            op = 'rfi_all' if rec['iu'] == 1 else 'pick'
        props = {'C13'} if clause == 'input' else {'C20'} if clause == 'dup' else props_of(op, TRACE_FIELD[clause])
        sess = [[r['op'], r['A'], r.get('sp', 'pos')] for r in sessions[rec['sid']][1:rec['k'] + 1]]
        if pid in props:
            chk.violation('%s/recorded-session/%s' % (pid, verdict), {'recorded_session': sess, 'init_unit': rec['iu']},
                          {'observed': {x: rec[x] for x in ('out', 'cols', 'rows', 'meta_ok')}}, rec.get('detail', verdict))
        else:
            foreign += 1
    for s in sessions:
        chk.case(('recorded', s[0]['iu'], json.dumps([[r['op'], r['A'], r.get('sp')] for r in s[1:]])), nontrivial=len(s) > 3)
        chk.traces += 1
    return {'sessions': n, 'steps': len(recs) - n - 2, 'rejected_for_other_properties': foreign,
            'longest': max(len(s) - 1 for s in sessions)}
