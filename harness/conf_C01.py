"""C01 - loading an FCS file returns exactly the events recorded in it.

MC+GEN spec/FCSBytes (writer + reader over bytes) via spec/gen/Gen_C01: TLC writes every layout of a
   slice with the spec's own writer, checks Read(Write(x)) = Masked(x) on the spec, and dumps
   (bytes, expected outcome); the bytes are loaded with the real FCSFile / FCSData.
TRACE spec/trace/Trace_C01: hypothesis layouts (widths to 64 bits, real values, padding, 1..3
   parameters) written by harness/fcsgen.py and loaded by the real reader; the trace spec re-reads
   the recorded bytes itself.
"""
import json
import os
import re
import struct

from harness import core, tlc, fcsgen, fcsproj
from harness.core import run_driver


def compare(out, obs):
    """None if the observed load equals the spec's outcome, else a label."""
    if out['k'] == 'refused':
        if obs['k'] != 'refused':
            return 'loaded-what-spec-refuses'
        if obs.get('fcsdata') not in (None, 'refused'):
            return 'fcsdata-' + obs['fcsdata']
        return None
    if obs['k'] != 'ok':
        return 'refused-supported'
    if obs['N'] != out['N'] or obs['D'] != out['D']:
        return 'shape'
    if [[list(c) for c in r] for r in out['data']] != obs['data']:
        return 'values'
    exp_text = sorted([list(p[0]), list(p[1])] for p in out['text'])
    if sorted(obs['text']) != exp_text:
        return 'keywords'
    if 'an' in out and sorted(obs.get('analysis', [])) != sorted([list(p[0]), list(p[1])] for p in out['an']):
        return 'analysis-keywords'
    if obs.get('fcsdata') not in (None, 'same'):
        return 'fcsdata-' + obs['fcsdata']
    if 'nxwarn' in out:
        w = obs.get('warn') or []
        if any('additional data set' in m for m in w) != bool(out['nxwarn']):
            return 'nextdata-warning'
        if any('ANALYSIS segment could not be parsed' in m for m in w) != bool(out['anwarn']):
            return 'analysis-warning'
    return None


def lay_class(lay):
    ws = lay['widths']
    kind = 'uniform' if len(set(ws)) == 1 and ws[0] in (8, 16, 32, 64) else 'bytewise'
    return '%s/%s/%s' % (lay['dt'], kind, '+'.join(sorted(set(lay['rk']))))


def gen_slice(chk, sl, pid='C01', neg=[False]):
    cfg = 'SPECIFICATION Spec\nCONSTANT Slice = "%s"\nINVARIANT DecodeExact\nINVARIANT UnsupportedRefused\n' % sl
    res = tlc.require_ok(tlc.run_tlc('Gen_C01', cfg, dump=True), 'Gen_C01[%s]' % sl)
    chk.add_tlc(res, 'Gen_C01[%s]' % sl)
    d = tlc.scratch('c01_')
    path = os.path.join(d, 'g.fcs')
    n = 0
    for st in res.dump_states():
        out = st['out']
        if out['k'] == 'todo':
            continue
        with open(path, 'wb') as f:
            f.write(bytes(st['file']))
        obs = fcsproj.load(path)
        dlt = compare(out, obs)
        lay = st['scn']['lay']
        if not neg[0] and out['k'] == 'ok' and out['N'] > 0:
            bad = json.loads(json.dumps(out))
            bad['data'][0][0][0] = (bad['data'][0][0][0] + 1) % 256
            bad['text'] = [list(p) for p in out['text']]
            out2 = dict(out)
            chk.negative_control(compare({**out2, 'data': bad['data']}, obs) is not None,
                                 'C01 comparator accepts a flipped byte')
            neg[0] = True
        chk.case(('g', sl, json.dumps(lay)), nontrivial=(out['k'] == 'ok' and out['N'] > 0) or out['k'] == 'refused',
                 sample={'layout': lay, 'file_len': len(st['file']), 'expected': {k: out[k] for k in ('k', 'why', 'N', 'D', 'data')},
                         'observed': {k: obs.get(k) for k in ('k', 'exc', 'N', 'D', 'fcsdata')}} if n % 3001 == 11 else None)
        chk.traces += 1
        n += 1
        if dlt is not None:
            chk.violation('%s/gen/%s/%s' % (pid, lay_class(lay), dlt), {'layout': lay, 'bytes': st['file']},
                          {k: out[k] for k in ('k', 'why', 'N', 'D', 'data')},
                          {k: obs.get(k) for k in ('k', 'exc', 'N', 'D', 'data', 'fcsdata')})
    return n


# ------------------------------------------------------------------------------------ TRACE

def trace_part(chk, n_examples):
    from hypothesis import given, settings, strategies as st, HealthCheck
    recs = []
    metas = []
    d0 = tlc.scratch('c01t_')
    path = os.path.join(d0, 't.fcs')

    @st.composite
    def layout(draw):
        dt = draw(st.sampled_from(['I', 'I', 'I', 'F', 'D']))
        D = draw(st.integers(1, 3))
        if dt == 'I':
            widths = [draw(st.sampled_from([8, 16, 24, 32, 40, 48, 56, 64])) for _ in range(D)]
        else:
            widths = [32 if dt == 'F' else 64] * D
        N = draw(st.integers(0, 4))
        rbits = []
        ranges = []
        for w in widths:
            if dt != 'I':
                rbits.append(w)
                ranges.append(str(draw(st.sampled_from([1024, 262144, 1000000]))))
                continue
            b = draw(st.one_of(st.just(w), st.integers(1, w)))
            # R in (2^(b-1), 2^b] realises b mask bits; keep non-powers of two where float(R) is exact
            if b <= 52 and draw(st.booleans()):
                R = draw(st.integers(2 ** (b - 1) + 1, 2 ** b))
            else:
                R = 2 ** b
            rbits.append(b)
            ranges.append(str(R))
        big = draw(st.booleans())
        bo = draw(st.sampled_from(['4,3,2,1', '2,1'] if big else ['1,2,3,4', '1,2']))
        version = draw(st.sampled_from(['FCS2.0', 'FCS3.0', 'FCS3.1']))
        off = draw(st.sampled_from(['header', 'text'])) if version != 'FCS2.0' else 'header'
        endc = draw(st.sampled_from(['last', 'onepast']))
        pads = (draw(st.integers(0, 7)), draw(st.integers(0, 7)), draw(st.integers(0, 5)))
        events = []
        for r in range(N):
            row = []
            for w in widths:
                if dt == 'I':
                    v = draw(st.one_of(st.integers(0, 2 ** w - 1), st.sampled_from([0, 2 ** w - 1, 2 ** (w - 1), 1])))
                    row.append(v)
                else:
                    row.append(draw(st.binary(min_size=w // 8, max_size=w // 8)))
            events.append(row)
        supp = draw(st.booleans()) and version != 'FCS2.0'
        analysis = draw(st.booleans())
        return dict(dt=dt, widths=widths, N=N, rbits=rbits, ranges=ranges, big=big, bo=bo, version=version, off=off,
                    endc=endc, pads=pads, events=events, supp=supp, analysis=analysis)

    @settings(max_examples=n_examples, deadline=None, database=None, derandomize=True,
              suppress_health_check=list(HealthCheck))
    @given(layout())
    def run(L):
        D = len(L['widths'])
        ps = fcsgen.sample_pairs(L['N'], ['p%d' % i for i in range(D)], L['widths'], L['ranges'], datatype=L['dt'],
                                 big=L['big'], byteord=L['bo'], pne=['0,0'] * D)
        if L['dt'] == 'I':
            data = fcsgen.pack_events(L['events'], L['widths'], L['big'], 'I')
            ev = [[fcsproj.limbs_le(v, w // 8) for v, w in zip(row, L['widths'])] for row in L['events']]
        else:
            # events are raw IEEE bytes, most significant first
            data = b''.join((c if L['big'] else c[::-1]) for row in L['events'] for c in row)
            ev = [[list(c) for c in row] for row in L['events']]
        blob, lay = fcsgen.build(version=L['version'], pairs=ps, data=data, offsets_in=L['off'], end_conv=L['endc'],
                                 pad_text=L['pads'][0], pad_data=L['pads'][1], pad_tail=L['pads'][2],
                                 supp_pairs=[('XSUPP', 'a/b')] if L['supp'] else None,
                                 analysis_pairs=[('AK', 'av')] if L['analysis'] else None)
        with open(path, 'wb') as f:
            f.write(blob)
        obs = fcsproj.load(path)
        rec = {'bytes': list(blob), 'rbits': L['rbits'], 'k': obs['k'], 'N': obs.get('N', 0), 'D': obs.get('D', 0),
               'data': obs.get('data', []), 'text': obs.get('text', []), 'intact': True, 'isint': L['dt'] == 'I',
               'events': ev}
        recs.append(rec)
        metas.append({k: L[k] for k in ('dt', 'widths', 'N', 'rbits', 'ranges', 'bo', 'version', 'off', 'endc', 'pads')})
        if obs.get('fcsdata') not in ('same', 'refused'):
            chk.violation('C01/trace/fcsdata-%s' % obs.get('fcsdata'), metas[-1], 'FCSData view equals FCSFile.data',
                          obs.get('fcsdata'), direction='trace')

    run()
    # negative control: flip one observed limb of one loaded record
    ctl = None
    for r in recs:
        if r['k'] == 'ok' and r['N'] > 0:
            ctl = json.loads(json.dumps(r))
            ctl['data'][0][0][0] = (ctl['data'][0][0][0] + 1) % 256
            break
    if ctl is None:
        raise tlc.MachineryError('C01 trace: nothing loaded')
    recs.append(ctl)
    tf = os.path.join(d0, 'trace.ndjson')
    with open(tf, 'w') as f:
        for r in recs:
            f.write(json.dumps(r) + '\n')
    res = tlc.run_tlc('Trace_C01', 'SPECIFICATION Spec\nPOSTCONDITION AllConsumed\n', workers=1, env={'TRACE_FILE': tf})
    if not res.ok:
        raise tlc.MachineryError('Trace_C01 failed: ' + (res.error_text or res.stdout[-2000:]))
    chk.add_tlc(res, 'Trace_C01')
    rejects = {int(m.group(1)): m.group(2) for m in re.finditer(r'<<"REJECT", (\d+), "([^"]+)">>', res.stdout)}
    chk.negative_control(len(recs) in rejects, 'Trace_C01 accepted a flipped limb')
    rejects.pop(len(recs), None)
    for i, (r, m) in enumerate(zip(recs[:-1], metas), 1):
        chk.case(('t', core.stable_hash(m) + core.stable_hash(r['events'])), nontrivial=r['N'] > 0,
                 sample={'layout': m, 'k': r['k'], 'N': r['N'], 'data': r['data']} if i == 5 else None)
        chk.traces += 1
        if i in rejects:
            v = rejects[i]
            if 'writer-disagrees' in v:
                raise tlc.MachineryError('python FCS writer disagrees with intended events: ' + json.dumps(m))
            chk.violation('C01/trace/%s/%s' % (m['dt'], v), m, {'verdict': v},
                          {'k': r['k'], 'N': r['N'], 'D': r['D'], 'data': r['data']}, direction='trace')


def mc_reader(chk):
    cfg = ('SPECIFICATION Spec\nCONSTANT Lays <- MCLays\nINVARIANT Refines\nINVARIANT NoDataBeforeChecks\n'
           'INVARIANT IntactDecodes\nPROPERTY Forward\nPROPERTY Completes\n')
    res = tlc.run_tlc('MC_FCSReader', cfg, coverage=True)
    if not res.ok:
        raise tlc.MachineryError('MC_FCSReader: %s\n%s' % (res.violated, res.stdout[-1500:]))
    chk.add_tlc(res, 'MC_FCSReader')


def header_part(chk):
    import io
    import FlowCal.io
    res = tlc.require_ok(tlc.run_tlc('Gen_C01H', 'SPECIFICATION Spec\nINVARIANT FieldsReadBack\n', dump=True), 'Gen_C01H')
    chk.add_tlc(res, 'Gen_C01H')
    for st in res.dump_states():
        if st['stage'] != 100:
            continue
        out = st['out']
        raw = bytes(out['f'])
        try:
            h = FlowCal.io.read_fcs_header_segment(io.BytesIO(raw))
            obs = {'k': 'ok', 'v': [h.text_begin, h.text_end, h.data_begin, h.data_end, h.analysis_begin, h.analysis_end],
                   'version': h.version}
        except Exception as e:  # noqa
            obs = {'k': 'refused', 'exc': type(e).__name__}
        lab = None
        if obs['k'] != out['k']:
            lab = 'header-refused' if obs['k'] == 'refused' else 'header-accepted'
        elif out['k'] == 'ok' and (obs['v'] != list(out['v']) or obs['version'] != 'FCS' + st['scn'][0]):
            lab = 'header-fields'
        wide = any(isinstance(v, int) and v >= 10000000 for v in st['scn'][1:])
        chk.case(('h', json.dumps(st['scn'])), nontrivial=wide)
        chk.traces += 1
        if lab:
            chk.violation('C01/header/%s/%s' % ('8-digit-offsets' if wide else 'narrow', lab), {'header_text': raw.decode('latin-1')},
                          {'k': out['k'], 'v': list(out['v'])}, obs)


def main(chk, replay=None):
    chk.rule = ('GEN: every layout of the enumerated slices (version x datatype x byte order spelling x 1..2 widths x range '
                'kind x N x offset placement x end convention x padding; value patterns), non-trivial = loads >= 1 event or '
                'must be refused; TRACE: hypothesis layouts with 1..3 parameters, widths 8..64, real values')
    chk.assumptions = ['TLC, TLA+ value parser', 'files for GEN are the bytes written by the SPEC writer',
                       'python writer for TRACE is cross-checked by the trace spec against the intended events',
                       '$PnR text realises the mask bits chosen by the scenario (ranges larger than 2^width are outside the property)']
    if replay:
        sc = replay['scenario']
        if 'bytes' in sc:
            p = os.path.join(tlc.scratch('rp_'), 'r.fcs')
            open(p, 'wb').write(bytes(sc['bytes']))
            print('observed now:', json.dumps(fcsproj.load(p), default=core.jdefault)[:1500])
        print('expected:', json.dumps(replay['expected'])[:1500])
        return
    slices = ['int-quick', 'unsupported', 'patterns', 'analysis'] if chk.quick else \
        ['int-full', 'int-wide', 'int-odd', 'float', 'unsupported', 'patterns', 'analysis']
    if chk.quick:
        slices.append('float')
    slices.append('reordered')
    slices.append('many-par')
    slices.append('offset-styles')
    slices.append('blank-numbers')
    mc_reader(chk)
    header_part(chk)
    for sl in slices:
        gen_slice(chk, sl)
    trace_part(chk, 400 if chk.quick else 6000)
    chk.exhaustive = True


if __name__ == '__main__':
    run_driver('C01', main)
