"""C15 - a well-formed workbook always yields a complete, faithful output workbook.

MC+GEN spec/Workbook: every table of <= MaxRows rows over {identifier a, b, none} x {string, int, float, empty} is
      written with write_workbook and read back with read_table; expected per the spec: rows without identifier
      dropped, duplicates among identified rows refused, everything else unchanged in order.
MC    spec/ExcelUI: RunCompletes (the batch reaches Return from every table) is the termination argument.
GEN   generated workbooks (harness/excelworld rows: healthy kinds of ExcelUI.tla on two instruments, bead rows with
      1..3 clustering channels) x {plots, histogram sheet, explicit/default output path} and the shipped
      examples/experiment.xlsx are run through excel_ui.run; the output workbook must hold the sheets, rows and
      columns that Workbook.tla / ExcelUI.tla list, in order, and every documented figure file when plotting.
"""
import collections
import json
import multiprocessing as mp
import os
import shutil
import warnings

import numpy as np
import pandas as pd

from harness import core, tlc, excelworld as xw
from harness.core import run_driver

import FlowCal.excel_ui  # noqa

W = None
ROWCOLS = ['Analysis Notes', 'Number of Events', 'Acquisition Time (s)']
BEADCH = ['Detector Volt.', 'Amp. Type', 'Beads Model', 'Beads Params. Names', 'Beads Params. Values']
SAMPCH = ['Detector Volt.', 'Amp. Type', 'Mean', 'Geom. Mean', 'Median', 'Mode', 'Std', 'CV', 'Geom. Std', 'Geom. CV', 'IQR', 'RCV']


def run_program(hist):
    """RunProgram(hist) of Workbook.tla, read from the module text"""
    import re
    txt = open(os.path.join(tlc.SPEC_DIR, 'Workbook.tla')).read()
    seg = txt[txt.index('RunProgram(hist) =='):txt.index('Before(prog, a, b)')]
    parts = re.findall(r'<<([^<>]*)>>', seg)
    seqs = [re.findall(r'"([^"]*)"', p_) for p_ in parts]
    # <<fixed steps>> \o (IF hist THEN <<histograms>> ELSE <<>>) \o <<about, write>>
    return seqs[0] + (seqs[1] if hist else []) + seqs[-1]


def spec_lists():
    txt = open(os.path.join(tlc.SPEC_DIR, 'Workbook.tla')).read()
    for name, lst in (('RowColumns', ROWCOLS), ('BeadsChannelColumns', BEADCH), ('SamplesChannelColumns', SAMPCH)):
        seg = txt[txt.index(name + ' =='):]
        seg = seg[:seg.index('>>') + 2].replace('\n', ' ')
        got = [s for s in __import__('re').findall(r'"([^"]*)"', seg)]
        if got != lst:
            raise tlc.MachineryError('Workbook.tla %s and conf_C15 disagree: %r' % (name, got))


# ------------------------------------------------------------------ write/read round trip
def render_cell(c, i):
    return {'s': 'text%d' % i, 'i': 40 + i, 'f': 2.5 + i, '': None}[c]


def roundtrip_job(job):
    idx, table, exp = job
    d = os.path.join(W.dir, 'rt')
    os.makedirs(d, exist_ok=True)
    path = os.path.join(d, 'rt_%d_%d.xlsx' % (os.getpid(), idx))
    df = pd.DataFrame(collections.OrderedDict([('ID', [r[0] or None for r in table]),
                                               ('Value', [render_cell(r[1], i) for i, r in enumerate(table)]),
                                               ('Fixed', ['x%d' % i for i in range(len(table))])]))
    with warnings.catch_warnings():
        warnings.simplefilter('ignore')
        FlowCal.excel_ui.write_workbook(path, [('Sheet A', df.set_index('ID')), ('Other', df.iloc[0:0].set_index('ID'))])
        try:
            back = FlowCal.excel_ui.read_table(path, 'Sheet A', index_col='ID')
            k = 'ok'
        except ValueError:
            back, k = None, 'refused'
        except Exception as e:  # noqa
            back, k = None, 'raises:' + type(e).__name__
    os.unlink(path)
    if exp['k'] == 'refused':
        return None if k == 'refused' else ('duplicates-accepted' if k == 'ok' else k)
    if k != 'ok':
        return 'refused-a-readable-table' if k == 'refused' else k
    if list(back.columns) != ['Value', 'Fixed'] or back.index.name != 'ID':
        return 'column-names'
    rows = exp['rows']
    if [str(x) for x in back.index] != [r[0] for r in rows]:
        return 'row-identifiers'
    orig = {i: r for i, r in enumerate(table)}
    j = 0
    for i, r in enumerate(table):
        if r[0] == '':
            continue
        want = render_cell(r[1], i)
        got = back['Value'].iloc[j]
        fixed = back['Fixed'].iloc[j]
        j += 1
        if fixed != 'x%d' % i:
            return 'cell-values'
        if want is None:
            if not pd.isnull(got):
                return 'cell-values'
        elif isinstance(want, str):
            if got != want:
                return 'cell-values'
        elif pd.isnull(got) or float(got) != float(want):
            return 'cell-values'
    return None


# ------------------------------------------------------------------ run()
# how users name the folder a workbook lives in (the specification's place "wb" is any of them)
FOLDERS = ['run_%d', 'plate {%d} day 2', 'exp{GFP}_plate{%d}', '100%%_induction_%d', "it's run (%d) [a]", 'r%d.d']


def folder(prefix, idx):
    return prefix + FOLDERS[idx % len(FOLDERS)] % idx


def run_job(job):
    idx, cfg = job
    d = os.path.join(W.dir, folder('', idx))
    os.makedirs(d, exist_ok=True)
    inst_rows = cfg['instruments']
    for f in os.listdir(W.dir):
        if f.endswith('.fcs'):
            if not os.path.exists(os.path.join(d, f)):
                os.symlink(os.path.join(W.dir, f), os.path.join(d, f))
    beads = []
    for b in cfg['beads']:
        t = W.beads_table('none', b['inst'], rows=('BOK',)).rename(index={'BOK': b['id']})
        t.loc[b['id'], 'Clustering Channels'] = ', '.join(b['cluster'])
        if b.get('only_second'):         # a row that calibrates its second channel only (first MEF cell blank)
            t.loc[b['id'], xw.INSTR[b['inst']]['fl'][0] + ' MEF Values'] = None
        beads.append(t)
    bt = pd.concat(beads) if beads else W.beads_table('none', 'A', rows=('BOK',)).iloc[0:0]
    samples = []
    for s in cfg['samples']:
        t = W.samples_table([s['row']], inst=s['inst'], variant=s['variant'], fracs=[s['frac']], style=cfg.get('padded', False)).rename(index={'S1': s['id']})
        t.loc[s['id'], 'Beads ID'] = s['beads']
        samples.append(t)
    stt = pd.concat(samples) if samples else W.samples_table([], 'A', style=cfg.get('padded', False))
    if cfg.get('user_columns'):
        # columns of the user's own, documented as ignored and copied through - also when their header happens to end
        # like a FlowCal header in other capitals
        stt['Strain'] = 'MG1655'
        stt['Inducer units'] = 'uM'
        if len(bt):
            bt = bt.copy()
            bt['Lot mef values'] = 'AK02'
    stem = 'growth.2024.06' if cfg.get('dotted') else 'experiment'      # a name with dots besides the extension's
    inp = os.path.join(d, stem + '.xlsx')
    with pd.ExcelWriter(inp, engine='openpyxl') as wr:
        W.instruments.loc[inst_rows].reset_index().to_excel(wr, sheet_name='Instruments', index=False)
        bt.reset_index().rename(columns={'index': 'ID'}).to_excel(wr, sheet_name='Beads', index=False)
        stt.reset_index().rename(columns={'index': 'ID'}).to_excel(wr, sheet_name='Samples', index=False)
    outp = os.path.join(d, 'custom_out.xlsx') if cfg['explicit_out'] else None
    labels = []
    np.random.seed(11)
    # TRACE: the steps run() takes, recorded by wrappers around the module-level functions it calls
    steps = []
    names = ['read_table', 'process_beads_table', 'add_beads_stats', 'process_samples_table', 'add_samples_stats',
             'generate_histograms_table', 'generate_about_table', 'write_workbook']
    saved = {n: getattr(FlowCal.excel_ui, n) for n in names}

    def wrap(n):
        def f(*a, **kw):
            steps.append(n + (':' + str(a[1] if len(a) > 1 else kw.get('sheetname')) if n == 'read_table' else ''))
            return saved[n](*a, **kw)
        return f
    for n in names:
        setattr(FlowCal.excel_ui, n, wrap(n))
    try:
        with warnings.catch_warnings():
            warnings.simplefilter('ignore')
            if cfg.get('cli'):
                # the command-line entry point with the documented options
                args = ['-i', inp] + (['-o', outp] if outp else []) + (['-p'] if cfg['plot'] else []) + (['-H'] if cfg['hist'] else [])
                import io as _io
                import contextlib
                with contextlib.redirect_stdout(_io.StringIO()):
                    FlowCal.excel_ui.run_command_line(args)
            else:
                FlowCal.excel_ui.run(input_path=inp, output_path=outp, verbose=False, plot=cfg['plot'], hist_sheet=cfg['hist'])
    except Exception as e:  # noqa
        shutil.rmtree(d, ignore_errors=True)
        return [('run-raised/%s' % type(e).__name__, str(e)[:120])]
    finally:
        for n in names:
            setattr(FlowCal.excel_ui, n, saved[n])
    if steps != run_program(cfg['hist']):
        labels.append(('run-steps-out-of-documented-order', repr(steps)))
    real_out = outp or os.path.join(d, stem + '_output.xlsx')
    if not os.path.exists(real_out):
        found = sorted(f for f in os.listdir(d) if f.endswith('.xlsx'))
        shutil.rmtree(d, ignore_errors=True)
        return [('output-workbook-missing', '%s; workbooks present: %r' % (os.path.basename(real_out), found))]
    labels += check_output(real_out, W.instruments.loc[inst_rows].reset_index(), bt.reset_index(), stt.reset_index(), cfg['hist'])
    if cfg['plot']:
        want = []
        for b in cfg['beads']:
            want += ['plot_beads/density_hist_%s.png' % b['id'], 'plot_beads/clustering_%s.png' % b['id']]
            for c in xw.INSTR[b['inst']]['fl'][(1 if b.get('only_second') else 0):]:
                want += ['plot_beads/populations_%s_%s.png' % (c, b['id']), 'plot_beads/std_crv_%s_%s.png' % (c, b['id'])]
            if b.get('only_second'):
                unwanted = ['plot_beads/populations_%s_%s.png' % (xw.INSTR[b['inst']]['fl'][0], b['id'])]
                labels += [('undocumented-figure', u) for u in unwanted if os.path.exists(os.path.join(d, u))]
        for s in cfg['samples']:
            want.append('plot_samples/%s.png' % s['id'])
        for w in want:
            if not os.path.exists(os.path.join(d, w)):
                labels.append(('figure-missing', w))
    shutil.rmtree(d, ignore_errors=True)
    return labels


def check_output(path, inst_in, beads_in, samples_in, hist):
    labels = []
    import openpyxl
    wb = openpyxl.load_workbook(path, read_only=True)
    want_sheets = ['Instruments', 'Beads', 'Samples'] + (['Histograms'] if hist else []) + ['About Analysis']
    if wb.sheetnames != want_sheets:
        labels.append(('sheets', repr(wb.sheetnames)))
        return labels
    for sheet, tin, chcols, pattern in (('Instruments', inst_in, [], None), ('Beads', beads_in, BEADCH, ' MEF Values'),
                                        ('Samples', samples_in, SAMPCH, ' Units')):
        out = pd.read_excel(path, sheet_name=sheet, engine='openpyxl')
        cin = list(tin.columns)
        if list(out.columns[:len(cin)]) != cin:
            labels.append(('input-columns-not-preserved/' + sheet, repr(list(out.columns[:len(cin)]))))
            continue
        if [str(x) for x in out['ID']] != [str(x) for x in tin['ID']]:
            labels.append(('input-rows-not-preserved/' + sheet, repr(list(out['ID']))))
            continue
        for c in cin:
            a, b = list(out[c]), list(tin[c])
            for x, y in zip(a, b):
                if pd.isnull(x) and (y is None or pd.isnull(y)):
                    continue
                if isinstance(y, float) or isinstance(y, int):
                    if float(x) != float(y):
                        labels.append(('input-cell-changed/' + sheet, c))
                elif x != y:
                    labels.append(('input-cell-changed/' + sheet, c))
        if pattern:
            added = list(out.columns[len(cin):])
            want = list(ROWCOLS)
            for c in cin:
                if c.split()[-len(pattern.split()):] == pattern.split() and len(c.split()) > len(pattern.split()):
                    want += ['%s %s' % (' '.join(c.split()[:-len(pattern.split())]), x) for x in chcols]
            if added != want:
                labels.append(('added-columns/' + sheet, repr(added)[:200]))
            if len(tin) and out['Analysis Notes'].astype(str).str.startswith('ERROR').any():
                labels.append(('well-formed-row-reported-as-error/' + sheet, repr(list(out['Analysis Notes']))[:200]))
    return labels


def workbook_configs(chk):
    R = lambda file, u1, u2, u3: dict(file=file, frac='in', units=[u1, u2, u3], beads='ok')   # noqa
    rows = [R('ok-int', 'channel', 'rfi', 'empty'), R('ok-float', 'au', 'mef', 'empty'), R('ok-int', 'mef', 'mef', 'rfi'),
            R('ok-int', 'empty', 'empty', 'empty'), R('ok-float', 'rfi', 'empty', 'au'), R('ok-int', 'mef', 'empty', 'empty')]
    cfgs = []
    rnd = np.random.RandomState(chk.seed)
    n = 5 if chk.quick else 24
    for i in range(n):
        two = i % 3 == 2
        insts = ['A', 'B'] if two else [['A'], ['B']][i % 2]
        beads = []
        for j, ins in enumerate(insts):
            fl = xw.INSTR[ins]['fl']
            cl = [fl[:1], fl, fl + xw.INSTR[ins]['extra'], fl + xw.INSTR[ins]['extra'] + xw.INSTR[ins]['sc'][1:]][(i + j + 2) % 4]   # 1..4 channels
            beads.append(dict(id='B%s%d' % (ins, j), inst=ins, cluster=cl))
            if i % 3 == 1 and j == 0:    # a second beads row of the same instrument, calibrating its second channel only
                beads.append(dict(id='B%s%dx' % (ins, j), inst=ins, cluster=fl, only_second=True))
        if i % 5 == 4:
            beads = []
        samples = []
        for k in range(1 + (i % 3)):
            ins = insts[k % len(insts)]
            row = rows[(i + k) % len(rows)]
            if not beads or not any(b['inst'] == ins for b in beads):
                row = dict(row, units=[u if u != 'mef' else 'rfi' for u in row['units']])
            bid = [b['id'] for b in beads if b['inst'] == ins]
            samples.append(dict(id='S%03d' % (k + 1), inst=ins, row=row, variant=i + k, frac=[0.3, 0.85, 0.5][(i + k) % 3],
                                beads=bid[0] if bid else None))
        cfgs.append(dict(instruments=sorted(set(insts)), beads=beads, samples=samples, plot=(i % 2 == 1), hist=(i % 4 in (1, 2)),
                         explicit_out=(i % 3 == 0), cli=(i % 4 == 2), padded=(i % 4 == 1), dotted=(i % 2 == 0), user_columns=(i % 3 != 1)))     # padded: ' FL1-H  Units ' headers
    return cfgs


def env_job(job):
    """replay one RunEnv history: chdir / stray look-alike folders / repeated runs on one workbook"""
    idx, st = job
    hist = st['hist']
    d = os.path.join(W.dir, folder('env_', idx))
    other = os.path.join(W.dir, 'env_%d_other' % idx)
    os.makedirs(d, exist_ok=True)
    os.makedirs(other, exist_ok=True)
    for f in os.listdir(W.dir):
        if f.endswith('.fcs') and not os.path.exists(os.path.join(d, f)):
            os.symlink(os.path.join(W.dir, f), os.path.join(d, f))
    bt = W.beads_table('none', 'A', rows=('BOK',))
    stt = W.samples_table([dict(file='ok-int', frac='in', units=['rfi', 'mef', 'empty'], beads='ok')], inst='A', variant=idx, fracs=[0.5])
    stt.loc['S1', 'Beads ID'] = 'BOK'
    inp = os.path.join(d, 'experiment.xlsx')
    with pd.ExcelWriter(inp, engine='openpyxl') as wr:
        W.instruments.loc[['A']].reset_index().to_excel(wr, sheet_name='Instruments', index=False)
        bt.reset_index().rename(columns={'index': 'ID'}).to_excel(wr, sheet_name='Beads', index=False)
        stt.reset_index().rename(columns={'index': 'ID'}).to_excel(wr, sheet_name='Samples', index=False)
    labels = []
    here = os.getcwd()
    place = {'wb': d, 'other': other}
    s1 = os.path.join(d, stt.loc['S1', 'File Path'])
    versions = [os.path.join(W.dir, stt.loc['S1', 'File Path']), os.path.join(W.dir, W.files[('A', 'int-b')])]
    data = 0
    counts = {}       # number of events the output reports for S1 -> per recording (learnt from the runs themselves)
    try:
        os.chdir(d)
        for k, (op, a) in enumerate(hist):
            if op == 'chdir':
                os.chdir(place[a])
            elif op == 'stray':
                os.makedirs(os.path.join(other, a))
            elif op == 'replace':
                data = 1 - data
                os.remove(s1)
                shutil.copyfile(versions[data], s1)
            else:
                out = os.path.join(d, 'experiment_output.xlsx')
                if os.path.exists(out):
                    os.remove(out)
                np.random.seed(11)
                try:
                    with warnings.catch_warnings():
                        warnings.simplefilter('ignore')
                        FlowCal.excel_ui.run(input_path=inp, verbose=False, plot=(a == 'plots'), hist_sheet=False)
                except Exception as e:  # noqa
                    labels.append(('run-raised/%s/step-%d' % (type(e).__name__, k), str(e)[:120]))
                    break
                if not os.path.exists(out):
                    labels.append(('output-workbook-missing/step-%d' % k, out))
                    break
                labels += [(x + '/env', y) for x, y in check_output(out, W.instruments.loc[['A']].reset_index(), bt.reset_index(),
                                                                      stt.reset_index(), False)]
                # the output describes the recording the file holds NOW (RunEnv.OutputFaithful): the event count it
                # reports for S1 is the one the same workflow reports for that recording under a name of its own
                got = pd.read_excel(out, sheet_name='Samples', engine='openpyxl').set_index('ID').loc['S1', 'Number of Events']
                if data not in counts:
                    t1 = stt.copy()
                    t1.loc['S1', 'File Path'] = os.path.basename(versions[data])
                    with warnings.catch_warnings():
                        warnings.simplefilter('ignore')
                        counts[data] = int(W.process(t1, 'none')['S1'].shape[0])
                if int(got) != counts[data]:
                    labels.append(('output-describes-a-replaced-file/env', 'S1 reported with %r events, the file now holds a recording that gives %d'
                                   % (got, counts[data])))
                if a == 'plots':
                    for w in ('plot_beads/density_hist_BOK.png', 'plot_beads/clustering_BOK.png', 'plot_samples/S1.png'):
                        if not os.path.exists(os.path.join(d, w)):
                            labels.append(('figure-missing/env', w))
        # final file-system state against the specification's
        real_dirs = sorted([p, kd] for p in ('wb', 'other') for kd in ('plot_beads', 'plot_samples') if os.path.isdir(os.path.join(place[p], kd)))
        real_figs = sorted([p, kd] for p, kd in real_dirs if os.listdir(os.path.join(place[p], kd)))
        if not labels:
            if real_dirs != sorted(list(x) for x in st['dirs']):
                labels.append(('folders/env', repr(real_dirs)))
            elif real_figs != sorted(list(x) for x in st['figs']):
                labels.append(('figures-in-wrong-folder/env', repr(real_figs)))
    finally:
        os.chdir(here)
        shutil.rmtree(d, ignore_errors=True)
        shutil.rmtree(other, ignore_errors=True)
    return labels


def example_job(plot):
    d = os.path.join(W.dir, 'example_%d' % int(plot))
    shutil.copytree(os.path.join(core.REPO, 'examples'), d, ignore=shutil.ignore_patterns('*.py', '*output*', 'plot_*'))
    labels = []
    np.random.seed(1)
    try:
        with warnings.catch_warnings():
            warnings.simplefilter('ignore')
            FlowCal.excel_ui.run(input_path=os.path.join(d, 'experiment.xlsx'), verbose=False, plot=plot, hist_sheet=True)
    except Exception as e:  # noqa
        return [('example-workbook/run-raised/%s' % type(e).__name__, str(e)[:120])]
    with warnings.catch_warnings():
        warnings.simplefilter('ignore')
        ins = FlowCal.excel_ui.read_table(os.path.join(d, 'experiment.xlsx'), 'Instruments', index_col='ID').reset_index()
        be = FlowCal.excel_ui.read_table(os.path.join(d, 'experiment.xlsx'), 'Beads', index_col='ID').reset_index()
        sa = FlowCal.excel_ui.read_table(os.path.join(d, 'experiment.xlsx'), 'Samples', index_col='ID').reset_index()
    labels += [('example-workbook/' + a, b) for a, b in check_output(os.path.join(d, 'experiment_output.xlsx'), ins, be, sa, True)]
    if plot:
        nfig = len([f for f in os.listdir(os.path.join(d, 'plot_samples'))]) + len([f for f in os.listdir(os.path.join(d, 'plot_beads'))])
        if nfig != len(sa) + 2 * len(be) + 2 * sum(int(pd.notnull(be[c]).sum()) for c in be.columns if c.endswith(' MEF Values')):
            labels.append(('example-workbook/figure-count', str(nfig)))
    shutil.rmtree(d, ignore_errors=True)
    return labels


def mixed_resolution_cases(chk):
    """Samples whose reported channels have DIFFERENT resolutions ($PnR 256 / 1024 in three orders), histogram sheet on:
    run() completes, all five sheets are there, every reported channel has its own bin row and as
    many counts as bins, and every channel's counts add up to the same number of gated events."""
    from harness import fcsgen
    rnd = np.random.RandomState(15)
    n = 2500
    for k, res in enumerate(([256, 1024, 1024], [1024, 256, 1024], [256, 256, 1024], [1024, 1024, 1024])):
        d = tlc.scratch('c15mix_')
        names = ['FSC', 'SSC', 'FL1', 'FL2', 'FL3', 'Time']
        ranges = [1024, 1024] + list(res) + [1024]
        cols = [np.clip(rnd.normal(500, 60, n), 1, 1022), np.clip(rnd.normal(450, 60, n), 1, 1022)]
        cols += [np.clip(rnd.normal(r * 0.45, r * 0.1, n), 1, r - 2) for r in res]
        cols.append(np.arange(n) % 1024)
        ev = np.column_stack(cols).astype(int)
        fcsgen.write_sample(os.path.join(d, 's1.fcs'), ev.tolist(), names, ranges, bits=16, pne=['0,0'] * 6)
        inst = pd.DataFrame({'ID': ['I1'], 'Description': ['x'], 'Forward Scatter Channel': ['FSC'], 'Side Scatter Channel': ['SSC'],
                             'Fluorescence Channels': ['FL1, FL2, FL3'], 'Time Channel': ['Time']})
        beads = pd.DataFrame({'ID': [], 'Instrument ID': [], 'File Path': [], 'Beads Lot': [], 'FL1 MEF Values': [],
                              'Gate Fraction': [], 'Clustering Channels': []})
        samp = pd.DataFrame({'ID': ['S1'], 'Instrument ID': ['I1'], 'Beads ID': [None], 'File Path': ['s1.fcs'],
                             'FL1 Units': ['Channel'], 'FL2 Units': ['Channel'], 'FL3 Units': ['Channel'], 'Gate Fraction': [0.8]})
        inp, outp = os.path.join(d, 'in.xlsx'), os.path.join(d, 'out.xlsx')
        with pd.ExcelWriter(inp) as w:
            inst.to_excel(w, sheet_name='Instruments', index=False)
            beads.to_excel(w, sheet_name='Beads', index=False)
            samp.to_excel(w, sheet_name='Samples', index=False)
        lab, det = None, None
        try:
            with warnings.catch_warnings():
                warnings.simplefilter('ignore')
                FlowCal.excel_ui.run(input_path=inp, output_path=outp, verbose=False, plot=False, hist_sheet=True)
        except Exception as e:  # noqa
            lab, det = 'run-raised', type(e).__name__ + ': ' + str(e)[:100]
        if lab is None and not os.path.exists(outp):
            lab, det = 'no-output-workbook', None
        if lab is None:
            sheets = pd.ExcelFile(outp).sheet_names
            miss = [x for x in ('Instruments', 'Beads', 'Samples', 'Histograms', 'About Analysis') if x not in sheets]
            if miss:
                lab, det = 'sheet-missing', miss
        if lab is None:
            h = pd.read_excel(outp, sheet_name='Histograms', header=None)
            got = {}
            for r in range(1, h.shape[0]):
                vals = h.iloc[r, 3:].dropna()
                got[(str(h.iloc[r, 1]), str(h.iloc[r, 2]).split(' ')[0])] = (int(len(vals)), float(vals.sum()))
            want = {(c, kind): rr for c, rr in zip(('FL1', 'FL2', 'FL3'), res) for kind in ('Bin', 'Counts')}
            if sorted(got) != sorted(want) or any(got[(c, 'Bin')][0] != got[(c, 'Counts')][0] or got[(c, 'Bin')][0] < 1 for c in ('FL1', 'FL2', 'FL3')):
                lab, det = 'histogram-rows', {str(x): got[x][0] for x in got}
            elif len({got[(c, 'Counts')][1] for c in ('FL1', 'FL2', 'FL3')}) != 1:
                lab, det = 'histogram-counts-differ-between-channels', {c: got[(c, 'Counts')][1] for c in ('FL1', 'FL2', 'FL3')}
        shutil.rmtree(d, ignore_errors=True)
        chk.case(('mixres', k), nontrivial=len(set(res)) > 1)
        chk.traces += 1
        if lab:
            chk.violation('C15/mixed-resolutions/' + lab, {'resolutions': list(res)}, 'complete output workbook', det)


def main(chk, replay=None):
    global W
    chk.rule = ('GEN: all tables of <= MaxRows rows over 3 identifier states x 4 cell kinds for the write/read round trip; generated '
                'workbooks (1..2 instruments, 0..2 bead rows with 1..3 clustering channels, 1..3 sample rows, units spellings) x '
                '{plot, histogram sheet, explicit output path}; the shipped example workbook; non-trivial = every workbook / every '
                'table with a dropped or duplicated identifier')
    chk.assumptions = ['TLC, value parser', 'workbooks written with pandas/openpyxl directly (not with write_workbook) for run()',
                       'numeric cells compared as numbers, empty cells as empty']
    if replay:
        print(json.dumps(replay, indent=1, default=core.jdefault)[:3000])
        return
    spec_lists()
    mixed_resolution_cases(chk)
    maxrows = 3 if chk.quick else 4
    res = tlc.require_ok(tlc.run_tlc('Workbook', 'SPECIFICATION Spec\nCONSTANT MaxRows = %d\nINVARIANT NothingInvented\n'
                                     'INVARIANT OnlyUnidentifiedDropped\nINVARIANT RefusedOnlyForDuplicates\n' % maxrows, dump=True), 'Workbook')
    chk.add_tlc(res, 'Workbook[<=%d rows]' % maxrows)
    inv = 'INVARIANT NeverAborted\nINVARIANT Isolation\nINVARIANT TableOrder\nPROPERTY Completes\n'
    res2 = tlc.run_tlc('MC_ExcelUI', 'SPECIFICATION Spec\nCONSTANTS RowKinds <- SmallRows\nMaxRows = 2\n' + inv)
    if not res2.ok:
        raise tlc.MachineryError('MC_ExcelUI (termination): %s\n%s' % (res2.violated, res2.stdout[-1200:]))
    chk.add_tlc(res2, 'MC_ExcelUI[termination]')
    rt = [(i, st['table'], st['out']) for i, st in enumerate(res.dump_states()) if st['out']['k'] != 'building']
    if chk.quick:
        rt = [j for j in rt if (j[0] + chk.seed) % 4 == 0 or len(j[1]) <= 2]
    W = xw.World()
    for inst in ('A', 'B'):
        W.beads('none', inst)
    if not chk.quick:
        # unbounded companion (extra; the claim stays model checking): the two file-system invariants of RunEnv are
        # INDUCTIVE - checked symbolically by Apalache for histories of any length; the C15-r3 transition must break it
        from harness import apalache
        chk.extra['apalache'] = apalache.inductive('RunEnvInd')
    cfgs = workbook_configs(chk)
    res3 = tlc.require_ok(tlc.run_tlc('RunEnv', 'SPECIFICATION Spec\nCONSTANT MaxOps = %d\nINVARIANT StrayUntouched\n'
                                      'INVARIANT FiguresUnderWorkbook\nPROPERTY RunCompletes\nPROPERTY NothingRemoved\nPROPERTY OutputFaithful\n' % (3 if chk.quick else 4),
                                      dump=True), 'RunEnv')
    chk.add_tlc(res3, 'RunEnv')
    envs = [st for st in res3.dump_states() if st['hist'] and st['hist'][-1][0] == 'run' and len(st['hist']) >= 2]
    if chk.quick:      # histories ending in a run with plots that follows an earlier run or a stray folder
        envs = [st for st in envs if st['hist'][-1][1] == 'plots' and
                any(h[0] == 'stray' or h == ['run', 'plots'] for h in st['hist'][:-1]) or
                any(h[0] == 'replace' for h in st['hist'])]
    with mp.get_context('fork').Pool(min(16, os.cpu_count() or 1)) as pool:
        envr = pool.map_async(env_job, list(enumerate(envs)), chunksize=1)
        ex = pool.apply_async(example_job, (not chk.quick,))
        runs = pool.map_async(run_job, list(enumerate(cfgs)), chunksize=1)
        rts = pool.map(roundtrip_job, rt, chunksize=20)
        runs = runs.get()
        ex = ex.get()
        envr = envr.get()
    for st, labels in zip(envs, envr):
        chk.case(('env', json.dumps(st['hist'])), nontrivial=True,
                 sample={'environment_history': st['hist'], 'spec_state': {'dirs': st['dirs'], 'figs': st['figs']},
                         'verdict': labels or 'as specified'} if len(st['hist']) == 3 and st['hist'][0][0] == 'chdir' and st['hist'][1][0] == 'stray' else None)
        chk.traces += 1
        for lab, det in labels:
            chk.violation('C15/run-environment/%s' % lab, {'environment_history': st['hist']},
                          {'dirs': st['dirs'], 'figs': st['figs'], 'res': st['res']}, det)
    neg = False
    for (i, table, exp), lab in zip(rt, rts):
        chk.case(('rt', json.dumps(table)), nontrivial=any(r[0] == '' for r in table) or exp['k'] == 'refused',
                 sample={'table': table, 'expected': exp, 'verdict': lab or 'same'} if len(chk.samples) < 2 and len(table) == 3 else None)
        chk.traces += 1
        if lab:
            n_empty = sum(1 for r in table if r[0] == '')
            chk.violation('C15/roundtrip/%s/%d-unidentified-rows' % (lab, min(n_empty, 2)), {'table': table}, exp, lab)
    chk.negative_control(roundtrip_job((99999, [['a', 's'], ['a', 'i']], {'k': 'ok', 'rows': [['a', 's'], ['a', 'i']]})) is not None,
                         'C15 round-trip judge accepts duplicated identifiers read back')
    for (i, cfg), labels in zip(enumerate(cfgs), runs):
        desc = {'instruments': cfg['instruments'], 'beads': [(b['id'], len(b['cluster'])) for b in cfg['beads']],
                'samples': [(s['id'], s['row']['units'], s['row']['file']) for s in cfg['samples']], 'plot': cfg['plot'], 'hist': cfg['hist'],
                'explicit_out': cfg['explicit_out']}
        chk.case(('run', json.dumps(desc)), nontrivial=True, sample={'workbook': desc, 'verdict': labels or 'complete'} if len(chk.samples) < 4 else None)
        chk.traces += 1
        for lab, det in labels:
            three = any(len(b['cluster']) >= 3 for b in cfg['beads']) and cfg['plot']
            chk.violation('C15/run/%s%s' % (lab, '/3-clustering-channels+plots' if three and 'raised' in lab else ''), desc, 'complete output', det)
    chk.case(('example', 0), nontrivial=True)
    chk.traces += 1
    for lab, det in ex:
        chk.violation('C15/' + lab, {'workbook': 'examples/experiment.xlsx', 'plot': not chk.quick}, 'complete output', det)
    chk.exhaustive = False


if __name__ == '__main__':
    run_driver('C15', main)
