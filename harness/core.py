"""Shared plumbing of all conformance drivers: counters, violations, known findings,
evidence file, exit codes (0 held / 1 VIOLATION / 2 machinery failure)."""
import hashlib
import json
import os
import sys
import time
import traceback

VERIF = os.path.dirname(os.path.dirname(os.path.abspath(__file__)))
REPO = os.environ.get('FLOWCAL_REPO', '/repo')
if REPO not in sys.path:
    sys.path.insert(0, REPO)
os.environ.setdefault('MPLBACKEND', 'Agg')
os.environ.setdefault('PYTHONHASHSEED', '0')
os.environ.setdefault('FLOWCAL_VERIF', '1')

from harness.tlc import MachineryError  # noqa: E402


def jdefault(o):
    import numpy as np
    if isinstance(o, (np.integer,)):
        return int(o)
    if isinstance(o, (np.floating,)):
        return float(o)
    if isinstance(o, np.bool_):
        return bool(o)
    if isinstance(o, np.ndarray):
        return o.tolist()
    if isinstance(o, (set, frozenset)):
        return sorted(o, key=repr)
    if isinstance(o, bytes):
        return list(o)
    if isinstance(o, tuple):
        return list(o)
    return repr(o)


def stable_hash(obj):
    return hashlib.sha1(json.dumps(obj, sort_keys=True, default=jdefault).encode()).hexdigest()[:12]


class KnownFindings(object):
    def __init__(self):
        p = os.path.join(VERIF, 'known_findings.json')
        self.entries = json.load(open(p))['findings'] if os.path.exists(p) else []

    def open_for(self, pid):
        return [e for e in self.entries if e['property'] == pid and e['status'] == 'open']

    def match(self, pid, key):
        for e in self.open_for(pid):
            if e['key'] == key:
                return e
        return None


class Check(object):
    def __init__(self, pid, tier=None, seed=None, clean=True):
        self.pid = pid
        self.tier = tier or os.environ.get('VERIF_TIER', 'quick')
        if self.tier not in ('quick', 'thorough'):
            self.tier = 'quick'
        self.seed = int(seed if seed is not None else os.environ.get('VERIF_SEED', '0') or 0)
        self.t0 = time.time()
        self.states = 0
        self.transitions = 0
        self.traces = 0              # behaviours replayed into the code + trace records validated
        self.evaluations = 0
        self.nontrivial = set()
        self.samples = []
        self.violations = []
        self.known_hit = {}
        self.kf = KnownFindings()
        self.extra = {}
        self.assumptions = []
        self.neg_controls = 0
        self.action_coverage = {}
        self.rule = ''
        self.exhaustive = False
        self.logged = {}
        self.mc_runs = []
        self.max_viol_print = 4
        self._classes_written = set()
        d = os.path.join(VERIF, 'out', 'replay')
        if os.path.isdir(d) and clean:
            for fn in os.listdir(d):
                if fn.startswith(pid + '-'):
                    try:
                        os.unlink(os.path.join(d, fn))
                    except OSError:      # another run of the same check is cleaning up as well
                        pass

    @property
    def quick(self):
        return self.tier == 'quick'

    # ---- bookkeeping
    def add_tlc(self, res, label):
        self.states += res.distinct
        self.transitions += max(res.generated, res.distinct)
        self.mc_runs.append({'label': label, 'distinct': res.distinct, 'generated': res.generated,
                             'depth': res.depth, 'wall_s': round(res.wall, 2)})
        for k, v in res.coverage.items():
            self.action_coverage[label + '.' + k] = v[1]

    def case(self, scenario_key=None, nontrivial=False, sample=None):
        self.evaluations += 1
        if nontrivial and scenario_key is not None:
            self.nontrivial.add(scenario_key if isinstance(scenario_key, (str, int)) else stable_hash(scenario_key))
        if sample is not None and len(self.samples) < 6:
            self.samples.append(sample)

    def violation(self, cls, scenario, expected, observed, direction='gen', ops=None):
        """Record a disagreement between specification and implementation.
        cls: class label (computed from the spec's description of the case)."""
        e = self.kf.match(self.pid, cls)
        if e is not None:
            self.known_hit.setdefault(cls, {'count': 0, 'what': e['what']})
            self.known_hit[cls]['count'] += 1
            return False
        rec = {'property': self.pid, 'direction': direction, 'class': cls, 'scenario': scenario,
               'ops': ops, 'expected': expected, 'observed': observed}
        h = stable_hash(rec)
        d = os.path.join(VERIF, 'out', 'replay')
        os.makedirs(d, exist_ok=True)
        path = os.path.join(d, '%s-%s.json' % (self.pid, h))
        if len(self.violations) < 200 or cls not in self._classes_written:
            self._classes_written.add(cls)
            with open(path, 'w') as f:
                json.dump(rec, f, indent=1, default=jdefault)
        self.violations.append({'class': cls, 'replay': path})
        if len(self.violations) <= self.max_viol_print:
            print('VIOLATION property=%s replay=%s' % (self.pid, path))
            print('  class=%s expected=%s observed=%s' % (cls, _short(expected), _short(observed)))
        sys.stdout.flush()
        return True

    def negative_control(self, rejected, what):
        if not rejected:
            raise MachineryError('negative control not rejected: ' + what)
        self.neg_controls += 1

    # ---- end of run
    def finish(self):
        wall = time.time() - self.t0
        for cls, v in sorted(self.known_hit.items()):
            print('KNOWN-FINDING: property=%s %s [%s] (%d cases)' % (self.pid, v['what'], cls, v['count']))
        cov = {
            'states': int(self.states),
            'transitions': int(self.transitions),
            'traces_validated_against_impl': int(self.traces),
            'samples': self.samples[:6] or [{'note': 'no sample recorded'}],
            'evaluations': int(self.evaluations),
            'distinct_nontrivial': len(self.nontrivial),
            'rule': self.rule,
            'exhaustive': bool(self.exhaustive),
            'negative_controls_rejected': self.neg_controls,
            'action_coverage': self.action_coverage,
            'known_findings_hit': {k: v['count'] for k, v in self.known_hit.items()},
            'logged_observations': self.logged,
            'tlc_runs': self.mc_runs,
        }
        cov.update(self.extra)
        ev = {
            'property_id': self.pid,
            'tier': self.tier,
            'seed': self.seed,
            'level': 'model_checking',
            'coverage': cov,
            'assumptions': self.assumptions,
            'wall_s': round(wall, 2),
            'violations': len(self.violations),
        }
        os.makedirs(os.path.join(VERIF, 'evidence'), exist_ok=True)
        with open(os.path.join(VERIF, 'evidence', self.pid + '.json'), 'w') as f:
            json.dump(ev, f, indent=1, default=jdefault)
        if len(self.violations) > self.max_viol_print:
            print('... %d violations in total' % len(self.violations))
        if self.violations:
            cc = {}
            for v in self.violations:
                cc[v['class']] = cc.get(v['class'], 0) + 1
            for k in sorted(cc, key=lambda k: -cc[k])[:40]:
                print('  violation-class %-60s %d' % (k, cc[k]))
        print('%s %s tier=%s seed=%d states=%d traces=%d evaluations=%d nontrivial=%d violations=%d wall=%.1fs' % (
            self.pid, 'FAIL' if self.violations else 'ok', self.tier, self.seed, self.states, self.traces,
            self.evaluations, len(self.nontrivial), len(self.violations), wall))
        return 1 if self.violations else 0


def _short(x, n=300):
    s = json.dumps(x, default=jdefault)
    return s if len(s) <= n else s[:n] + '...'


def run_driver(pid, main):
    """Standard entry: main(check) does the work; exit codes per DESIGN 2.2."""
    import argparse
    ap = argparse.ArgumentParser()
    ap.add_argument('--tier', default=None)
    ap.add_argument('--seed', default=None)
    ap.add_argument('--replay', default=None)
    a = ap.parse_args()
    chk = Check(pid, a.tier, a.seed, clean=not a.replay)      # (a replay keeps the replay files: it is about to read one)
    try:
        if a.replay:
            main(chk, replay=json.load(open(a.replay)))
        else:
            main(chk)
        rc = chk.finish()
    except MachineryError as ex:
        print('MACHINERY-FAILURE property=%s: %s' % (pid, ex))
        rc = 2
    except Exception as ex:
        traceback.print_exc()
        tb = traceback.extract_tb(ex.__traceback__)
        where = tb[-1].filename if tb else ''
        # who raised: going outward from the innermost frame, the first frame that belongs to the library or to the harness
        # (frames of numpy / the standard library in between were called by one of the two).  Exceptions that come back
        # from a worker process carry their frames as text.
        import re as _re
        frames = [(f.filename, f.lineno, f.name) for f in tb]
        remote = getattr(ex, '__cause__', None)
        if remote is not None and hasattr(remote, 'tb'):
            frames += [(m.group(1), int(m.group(2)), m.group(3)) for m in _re.finditer(r'File "([^"]+)", line (\d+), in (\S+)', remote.tb)]
        lib, here = os.path.realpath(REPO) + os.sep, os.path.realpath(os.path.dirname(os.path.abspath(__file__))) + os.sep
        owner = None
        for fn, ln, nm in reversed(frames):
            rp = os.path.realpath(fn)
            if rp.startswith(lib):
                owner = (fn, ln, nm)
                break
            if rp.startswith(here):
                break
        if owner is not None:
            where = owner[0]
            tb = [type('F', (), {'filename': owner[0], 'lineno': owner[1], 'name': owner[2]})()]
        if os.path.realpath(where).startswith(os.path.realpath(REPO) + os.sep):
            # the LIBRARY raised on an input of this check on which it does not raise on the tree the check was built
            # against (a step of the harness that is not individually guarded): a behaviour change of the library, not a
            # failure of the machinery.  Reported as a violation of the property being checked.
            try:
                chk.violation('%s/library-raised-in-unguarded-step/%s' % (pid, type(ex).__name__),
                              {'where': '%s:%s in %s' % (os.path.relpath(where, REPO), tb[-1].lineno, tb[-1].name)},
                              'no exception', str(ex)[:200])
                rc = chk.finish()
            except Exception:
                traceback.print_exc()
                print('MACHINERY-FAILURE property=%s: unexpected exception in driver' % pid)
                rc = 2
        else:
            print('MACHINERY-FAILURE property=%s: unexpected exception in driver' % pid)
            rc = 2
    sys.stdout.flush()
    sys.exit(rc)
