"""Load a file with the real reader and project the outcome to the vocabulary of FCSBytes.ReadFile."""
import warnings
import numpy as np
import FlowCal.io
from harness import loadform


def limbs_le(v, nbytes):
    return list(int(v).to_bytes(nbytes, 'little'))


def project_data(arr, widths, isint):
    out = []
    a = np.asarray(arr)
    if isint:
        for r in range(a.shape[0]):
            row = []
            for p in range(a.shape[1]):
                nb = widths[p] // 8 if p < len(widths) else a.dtype.itemsize
                v = int(a[r, p])
                if v >> (8 * nb):
                    row.append(limbs_le(v, 8) + [999])      # value does not fit the declared width
                else:
                    row.append(limbs_le(v, nb))
            out.append(row)
    else:
        be = np.ascontiguousarray(a.astype(a.dtype.newbyteorder('>'), copy=True))
        raw = be.tobytes()
        sz = a.dtype.itemsize
        k = 0
        for r in range(a.shape[0]):
            row = []
            for p in range(a.shape[1]):
                row.append(list(raw[k:k + sz]))
                k += sz
            out.append(row)
    return out


def codes(s):
    return list(s.encode('ISO-8859-1'))


def load(path, want_fcsdata=True):
    """-> dict(k='ok'|'refused', exc, N, D, data, text, isint, widths, warn, fcsdata_ok, fcsdata_same)"""
    with warnings.catch_warnings(record=True) as w:
        warnings.simplefilter('always')
        try:
            f = FlowCal.io.FCSFile(loadform.arg(path))
        except Exception as e:   # noqa
            o = {'k': 'refused', 'exc': type(e).__name__}
            if want_fcsdata:
                try:
                    FlowCal.io.FCSData(path)
                    o['fcsdata'] = 'loaded-although-FCSFile-refused'
                except Exception:
                    o['fcsdata'] = 'refused'
            return o
        warn = [str(x.message) for x in w]
    # the loaded object is a snapshot: what happens to the file afterwards is none of its business.  The file is
    # overwritten in place (same length, same inode) and restored once the object has been projected.
    original = open(path, 'rb').read()
    try:
        with open(path, 'r+b') as fh:
            fh.write(bytes((b ^ 0x5A) for b in original))
        return _project(f, path, want_fcsdata, warn, original)
    finally:
        with open(path, 'r+b') as fh:
            fh.write(original)


def _project(f, path, want_fcsdata, warn, original):
    isint = f.text.get('$DATATYPE') == 'I'
    D = f.data.shape[1]
    try:
        widths = [int(f.text['$P%dB' % (p + 1)]) for p in range(D)]
    except Exception:
        widths = [f.data.dtype.itemsize * 8] * D
    o = {'k': 'ok', 'N': int(f.data.shape[0]), 'D': int(D), 'isint': isint, 'widths': widths,
         'data': project_data(f.data, widths, isint),
         'text': [[codes(k), codes(v)] for k, v in f.text.items()],
         'analysis': [[codes(k), codes(v)] for k, v in f.analysis.items()], 'warn': warn}
    if want_fcsdata:
        with open(path, 'r+b') as fh:          # (the second load needs the file as it was)
            fh.write(original)
        try:
            with warnings.catch_warnings():
                warnings.simplefilter('ignore')
                d = FlowCal.io.FCSData(loadform.arg(path, len(original) + 3))     # (another way of handing the file over)
            same = (d.shape == f.data.shape and d.dtype == f.data.dtype and
                    np.asarray(d).tobytes() == np.asarray(f.data).tobytes())
            o['fcsdata'] = 'same' if same else 'differs'
        except Exception as e:  # noqa
            o['fcsdata'] = 'raises:' + type(e).__name__
    return o
