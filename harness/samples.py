"""Origin-coded samples (DESIGN 1.1 rule 2) and the projection of a result back to origins.

cell (r, c) of an R x C base holds 1 + r*STRIDE + c; channel c is named 'c<c>' and has a distinct
range, resolution, amplifier tuple, gain, voltage and label, so every metadata slot of a result can
be decoded to the origin column it belongs to."""
import os
import numpy as np

from harness import fcsgen, tlc, loadform
import FlowCal.io

STRIDE = 8
PNR = [1024, 2048, 4096, 512, 256, 8192, 16384, 128]
PNE = ['0,0', '4,1', '2,0.5', '3,1', '0,0', '5,2', '4.5,0', '1,1']
PNE_T = [(0.0, 0.0), (4.0, 1.0), (2.0, 0.5), (3.0, 1.0), (0.0, 0.0), (5.0, 2.0), (4.5, 1.0), (1.0, 1.0)]
PNG = ['1.5', '2.5', '3.5', '4.5', '5.5', '6.5', '7.5', '8.5']
PNV = ['100', '200', '300', '400', '500', '600', '700', '800']


def name(c):
    # names as acquisition programs write them: two of them carry a blank (kept verbatim by the TEXT reader: `c1 ` and
    # ` c2` are the names, `c1` and `c2` name nothing)
    return {1: 'c1 ', 2: ' c2'}.get(c, 'c%d' % c)


NAME_COL = {name(c): c for c in range(100)}


def base_values(R, C):
    return [[1 + r * STRIDE + c for c in range(C)] for r in range(R)]


_dir = None


def sample_dir():
    global _dir
    if _dir is None:
        _dir = tlc.scratch('smp_')
    return _dir


def write_base(R, C, tag='base', datatype='I', bits=16, values=None, **kw):
    path = os.path.join(sample_dir(), '%s_%dx%d_%s.fcs' % (tag, R, C, datatype))
    vals = values if values is not None else base_values(R, C)
    fcsgen.write_sample(path, vals, [name(c) for c in range(C)], PNR[:C], bits=bits, datatype=datatype,
                        pne=PNE[:C], png=PNG[:C], pnv=PNV[:C], pns=['L%d' % c for c in range(C)], **kw)
    return path


def load_base(R, C, **kw):
    return FlowCal.io.FCSData(loadform.arg(write_base(R, C, **kw)))


def decode_cell(v):
    v = int(v) - 1
    return [v // STRIDE, v % STRIDE]


def project_meta(x):
    """Each of the seven per-channel attributes of an FCSData -> list of origin column ids
    (or a string describing why that is impossible).  Uses the public accessors."""
    out = {}

    def col_of(table, key):
        try:
            return table.index(key)
        except ValueError:
            return 'unknown:%r' % (key,)

    def grab(label, fn, conv):
        try:
            vals = fn()
            out[label] = [conv(v) for v in vals]
        except Exception as e:   # noqa
            out[label] = 'raises:' + type(e).__name__

    grab('chan', lambda: list(x.channels), lambda v: NAME_COL[v] if v in NAME_COL else 'unknown:%r' % (v,))
    grab('rng', lambda: x.range(), lambda v: col_of([float(p - 1) for p in PNR], float(v[1])) if float(v[0]) == 0.0 else 'lo:%r' % (v,))
    grab('res', lambda: x.resolution(), lambda v: col_of(PNR, int(v)))
    grab('amp', lambda: x.amplification_type(), lambda v: _amp_col(v))
    grab('gain', lambda: x.amplifier_gain(), lambda v: col_of([float(g) for g in PNG], v))
    grab('volt', lambda: x.detector_voltage(), lambda v: col_of([float(g) for g in PNV], v))
    grab('label', lambda: x.channel_labels(), lambda v: int(v[1:]) if isinstance(v, str) and v[:1] == 'L' else 'unknown:%r' % (v,))
    return out


def _amp_col(v):
    # PNE_T has a duplicate (0,0) at columns 0 and 4: only bases with C <= 4 use this projection
    try:
        return PNE_T.index(tuple(v))
    except ValueError:
        return 'unknown:%r' % (v,)


ATTRS = ['chan', 'rng', 'res', 'amp', 'gain', 'volt', 'label']


def project(x, base_dtype=None):
    """Result of an indexing expression -> abstract object {'k', 'cells', 'shape', 'meta'}."""
    if not isinstance(x, np.ndarray):
        return {'k': 'scalar', 'cells': [decode_cell(x)], 'pytype': type(x).__name__}
    if x.ndim == 0:
        return {'k': 'array0d', 'cells': [decode_cell(x[()])]}
    o = {'k': 'vec' if x.ndim == 1 else ('mat' if x.ndim == 2 else 'nd%d' % x.ndim),
         'shape': list(x.shape), 'cells': [decode_cell(v) for v in np.asarray(x).ravel()],
         'dtype': str(x.dtype), 'cls': type(x).__name__}
    if isinstance(x, FlowCal.io.FCSData):
        o['meta'] = project_meta(x)
    return o
