"""C10 - Excel results equal the documented library steps applied by hand.

MC+GEN spec/ExcelUI: the row machine emits `calls`, the library-call program of a healthy row (convert scatter to
RFI; per fluorescence channel with units: nothing / to_rfi / to_rfi + the referenced beads' calibration; drop 250 /
100 events; remove saturated events in scatter + reported channels for integer data; density-gate the scatter
channels at the row's fraction).  For every generated healthy row (two instruments with different channel names,
units spelled in every letter case, integer and float files, two gate fractions) the program is executed by
harness/excelworld.by_hand with the library functions and must be bitwise equal to what process_samples_table
returns.  StatColumns / RowColumns of the spec drive the comparison of the statistics sheet with the library
statistics of the gated sample (geometric ones on positive events, with the note); the histogram sheet is
compared with np.histogram over every other edge of hist_bins(2*nbins).
"""
import json
import multiprocessing as mp
import os
import warnings

import numpy as np
import pandas as pd

from harness import core, tlc, excelworld as xw
from harness.core import run_driver

import FlowCal.excel_ui  # noqa
import FlowCal.stats  # noqa
import FlowCal.io  # noqa
import FlowCal.transform  # noqa
import FlowCal.gate  # noqa

W = None
STATCOLS = None


def feq(a, b):
    try:
        a, b = float(a), float(b)
    except Exception:
        return a == b
    return (a != a and b != b) or a == b


def check_job(job):
    idx, rows, expected, inst, fracs = job
    variant = idx % 4
    t = W.samples_table(rows, inst=inst, variant=variant, fracs=fracs)
    out = {'labels': [], 'obs': []}
    try:
        # one job in three also draws the per-sample figures (what the figures are drawn from is the result itself)
        # the beads table of half of the jobs holds a row that FAILS (missing file, too few events), listed after the working
        # rows and referred to by no sample: it is reported in its place and changes nothing else
        bf = ['none', 'missing', 'none', 'short'][idx % 4]
        res = W.process(t, bf, inst, plot_dir=('plots_%d_%d' % (os.getpid(), idx)) if idx % 3 == 0 else None)
    except Exception as e:  # noqa
        return {'labels': [('aborted/' + type(e).__name__, -1)], 'obs': [str(e)[:100]]}
    spec = xw.INSTR[inst]
    allfl = spec['fl'] + spec['extra']
    for i, (r, exp) in enumerate(zip(rows, expected)):
        rid = 'S%d' % (i + 1)
        v = res[rid]
        if isinstance(v, Exception):
            out['labels'].append(('healthy-row-error/' + xw.classify_error(v), i))
            continue
        hand = W.by_hand(r, t.loc[rid], exp['calls'], inst, beads_fault=bf)
        d = xw.same_sample(v, hand)
        out['obs'].append('%d events; by hand %d' % (v.shape[0], hand.shape[0]))
        if d:
            out['labels'].append(('sample-differs-from-hand-composition/' + d, i))
    # statistics sheet
    t2 = t.copy()
    try:
        with warnings.catch_warnings():
            warnings.simplefilter('ignore')
            FlowCal.excel_ui.add_samples_stats(t2, res)
            hist = FlowCal.excel_ui.generate_histograms_table(t2, res)
    except Exception as e:  # noqa
        out['labels'].append(('statistics-aborted/' + type(e).__name__, -1))
        return out
    for i, r in enumerate(rows):
        rid = 'S%d' % (i + 1)
        g = res[rid]
        if isinstance(g, Exception):
            continue
        if t2.loc[rid, 'Number of Events'] != g.shape[0]:
            out['labels'].append(('event-count', i))
        if not feq(t2.loc[rid, 'Acquisition Time (s)'], g.acquisition_time):
            out['labels'].append(('acquisition-time', i))
        note_expected = False
        for j, u in enumerate(r['units']):
            ch = allfl[j]
            if u == 'empty':
                if (ch + ' Mean') in t2.columns and not pd.isnull(t2.loc[rid, ch + ' Mean']):
                    out['labels'].append(('statistics-for-unreported-channel', i))
                continue
            col = np.asarray(g[:, ch].view(np.ndarray))
            pos = g[col > 0] if np.any(col <= 0) else g
            note_expected = note_expected or bool(np.any(col <= 0))
            for suffix, fn, positive in STATCOLS:
                with warnings.catch_warnings():
                    warnings.simplefilter('ignore')
                    ref = getattr(FlowCal.stats, fn)(pos if positive else g, ch)
                if not feq(t2.loc[rid, '%s %s' % (ch, suffix)], ref):
                    out['labels'].append(('statistic/%s' % suffix, i))
            if not feq(t2.loc[rid, ch + ' Detector Volt.'], g.detector_voltage(ch)):
                out['labels'].append(('detector-voltage-column', i))
            if t2.loc[rid, ch + ' Amp. Type'] != ('Log' if g.amplification_type(ch)[0] else 'Linear'):
                out['labels'].append(('amp-type-column', i))
            # histogram rows
            unit_text = t.loc[rid, [c for c in t.columns if c.split() == ch.split() + ['Units']][0]]
            scales = ['linear'] if unit_text == 'Channel' else (['linear', 'logicle'] if u == 'channel' else ['logicle'])
            nb = min(g.resolution(ch), 1024)
            try:
                counts = np.asarray(hist.loc[(rid, ch, 'Counts')].values[:nb], dtype=float)
            except Exception:
                out['labels'].append(('histogram-row-missing', i))
                continue
            ok = False
            for sc in scales:
                edges = g.hist_bins(ch, 2 * nb, sc)[::2]
                ref, _ = np.histogram(col, bins=edges)
                inside = int(np.sum((col >= edges[0]) & (col <= edges[-1])))
                if np.array_equal(counts, ref.astype(float)) and int(counts.sum()) == inside:
                    ok = True
            if not ok:
                out['labels'].append(('histogram-counts', i))
        note = t2.loc[rid, 'Analysis Notes']
        if note_expected != ('positive events' in str(note)):
            out['labels'].append(('positive-only-note', i))
    # column order of the statistics sheet
    cols = list(t2.columns)
    base = list(t.columns)
    if cols[:len(base)] != base:
        out['labels'].append(('input-columns-not-preserved', -1))
    return out


# ------------------------------------------------------------------ TRACE: recorded call sequences
class Recorder(object):
    """wrappers around the library functions the workflow calls; they record and delegate"""

    def __init__(self, inst, fxns):
        self.calls = []
        self.inst = inst
        self.spec = xw.INSTR[inst]
        self.allfl = self.spec['fl'] + self.spec['extra']
        self.saved = {}
        self.fxns = fxns
        self.row_fraction = None

    def chan_args(self, ch):
        if list(ch) == list(self.spec['sc']) if isinstance(ch, (list, tuple)) else False:
            return ['scatter']
        if isinstance(ch, str) and ch in self.allfl:
            return ['fl', self.allfl.index(ch) + 1]
        return ['other', repr(ch)]

    def __enter__(self):
        import FlowCal.transform as T
        import FlowCal.gate as G
        self.saved = {'to_rfi': T.to_rfi, 'start_end': G.start_end, 'high_low': G.high_low, 'density2d': G.density2d}
        rec = self

        def to_rfi(data, channels=None, *a, **k):
            rec.calls.append(['to_rfi', rec.chan_args(channels) + (['with-overrides'] if a or k else [])])
            return rec.saved['to_rfi'](data, channels, *a, **k)

        def start_end(data, num_start=250, num_end=100, full_output=False):
            rec.calls.append(['start_end', [num_start, num_end]])
            return rec.saved['start_end'](data, num_start=num_start, num_end=num_end, full_output=full_output)

        def high_low(data, channels=None, high=None, low=None, full_output=False):
            ok = high is None and low is None and isinstance(channels, list) and channels[:2] == rec.spec['sc'] and \
                channels[2:] == rec.reported
            rec.calls.append(['high_low', ['scatter+reported'] if ok else ['other', repr(channels), repr(high), repr(low)]])
            return rec.saved['high_low'](data, channels, high, low, full_output)

        def density2d(data, channels=[0, 1], bins=1024, gate_fraction=0.65, xscale='logicle', yscale='logicle', sigma=10.0,
                      bin_mask=None, full_output=False):
            ok = list(channels) == rec.spec['sc'] and bins == 1024 and sigma == 10.0 and bin_mask is None
            rec.calls.append(['density2d', ['scatter' if ok else 'other:' + repr(channels),
                                            'row-fraction' if gate_fraction == rec.row_fraction else 'other-fraction:%r' % gate_fraction,
                                            xscale if xscale == yscale else xscale + '/' + yscale]])
            return rec.saved['density2d'](data, channels=channels, bins=bins, gate_fraction=gate_fraction, xscale=xscale,
                                          yscale=yscale, sigma=sigma, bin_mask=bin_mask, full_output=full_output)
        T.to_rfi, G.start_end, G.high_low, G.density2d = to_rfi, start_end, high_low, density2d
        self.wrapped = {}
        for k, f in self.fxns.items():
            if f is None:
                self.wrapped[k] = None
            else:
                def w(data, channels, _f=f):
                    rec.calls.append(['to_mef', rec.chan_args(channels)])
                    return _f(data, channels)
                self.wrapped[k] = w
        return self

    def __exit__(self, *a):
        import FlowCal.transform as T
        import FlowCal.gate as G
        T.to_rfi, G.start_end, G.high_low, G.density2d = (self.saved['to_rfi'], self.saved['start_end'], self.saved['high_low'],
                                                          self.saved['density2d'])


def trace_job(job):
    idx, r, inst = job
    bt, bs, fx, mo = W.beads('none' if r['beads'] != 'failed' else 'missing', inst)
    t = W.samples_table([r], inst=inst, variant=idx % 4)
    with Recorder(inst, fx) as rec:
        rec.row_fraction = t.loc['S1', 'Gate Fraction']
        rec.reported = [rec.allfl[j] for j, u in enumerate(r['units']) if u != 'empty']
        try:
            with warnings.catch_warnings():
                warnings.simplefilter('ignore')
                res = FlowCal.excel_ui.process_samples_table(t, W.instruments, mef_transform_fxns=rec.wrapped, beads_table=bt,
                                                             base_dir=W.dir, verbose=False, plot=False)
            k = 'err' if isinstance(res['S1'], Exception) else 'ok'
        except Exception as e:  # noqa
            k = 'aborted:' + type(e).__name__
    return {'file': r['file'], 'frac': r['frac'], 'units': r['units'], 'beads': r['beads'], 'k': k, 'calls': rec.calls}


def beads_part(chk):
    """hand composition of the gated beads sample (ExcelUI.tla BeadsProgram)"""
    spec_txt = open(os.path.join(tlc.SPEC_DIR, 'ExcelUI.tla')).read()
    prog = [['to_rfi', 'scatter+fluorescence'], ['start_end', 250, 100], ['high_low', 'scatter'], ['density2d', 'scatter', 'sigma5']]
    for token in ('Call("to_rfi", <<"scatter+fluorescence">>)', 'Call("start_end", <<250, 100>>)', 'Call("high_low", <<"scatter">>)',
                  '"sigma5"'):
        if token not in spec_txt:
            raise tlc.MachineryError('BeadsProgram of ExcelUI.tla and conf_C10.beads_part disagree on ' + token)
    for inst in ('A', 'B'):
        bt, bs, fx, mo = W.beads('none', inst)
        sp = xw.INSTR[inst]
        for rid in ('BOK', 'BNOMEF'):
            row = bt.loc[rid]
            with warnings.catch_warnings():
                warnings.simplefilter('ignore')
                s = FlowCal.io.FCSData(os.path.join(W.dir, row['File Path']))
                s = FlowCal.transform.to_rfi(s, sp['sc'] + sp['fl'] + sp['extra'])
                s = FlowCal.gate.start_end(s, num_start=250, num_end=100)
                if s.data_type == 'I':
                    s = FlowCal.gate.high_low(s, channels=sp['sc'])
                s = FlowCal.gate.density2d(s, channels=sp['sc'], gate_fraction=row['Gate Fraction'], xscale='logicle', yscale='logicle',
                                           sigma=5.)
            d = xw.same_sample(bs[rid], s)
            chk.case(('beads', inst, rid), nontrivial=True)
            chk.traces += 1
            if d:
                chk.violation('C10/beads-row-differs-from-hand-composition/' + d, {'instrument': inst, 'beads_row': rid}, prog, d)


def calibration_calls_part(chk):
    """TRACE of the calibration step of every beads row: the arguments process_beads_table hands to get_transform_fxn
    are the ROW'S OWN (ExcelUI.tla BeadsProgram, last step): its gated sample, its MEF values and channels, its clustering
    channels - whatever the rows before it asked for."""
    if 'Call("get_transform_fxn", <<"own-mef-values", "own-mef-channels", "own-clustering-channels">>)' not in \
            open(os.path.join(tlc.SPEC_DIR, 'ExcelUI.tla')).read():
        raise tlc.MachineryError('BeadsProgram of ExcelUI.tla lacks the calibration call')
    for inst in ('A', 'B'):
        sp = xw.INSTR[inst]
        fl = sp['fl']
        rows = []
        clusters = [fl, fl[:1], fl + sp['extra'], fl[1:], fl + sp['extra'] + sp['sc'][1:]]
        for k, cl in enumerate(clusters):
            t = W.beads_table('none', inst, rows=('BOK',)).rename(index={'BOK': 'R%d' % k})
            t.loc['R%d' % k, 'Clustering Channels'] = ', '.join(cl)
            if k == 3:       # a row calibrating only the second channel
                t.loc['R%d' % k, fl[0] + ' MEF Values'] = None
            rows.append(t)
        bt = pd.concat(rows)
        bt.index.name = 'ID'
        calls = []
        real = FlowCal.mef.get_transform_fxn

        def recorder(data_beads, mef_values, mef_channels, **kw):
            calls.append({'n': int(data_beads.shape[0]), 'mef_values': [[None if v != v else float(v) for v in row] for row in np.array(mef_values, dtype=float)],
                          'mef_channels': list(mef_channels), 'clustering_channels': list(kw.get('clustering_channels') or [])})
            return real(data_beads, mef_values, mef_channels, **kw)
        FlowCal.mef.get_transform_fxn = recorder
        try:
            np.random.seed(3)
            with warnings.catch_warnings():
                warnings.simplefilter('ignore')
                bs, fx = FlowCal.excel_ui.process_beads_table(bt, W.instruments, base_dir=W.dir, verbose=False, plot=False)
        except Exception as e:  # noqa
            chk.violation('C10/beads/table-of-healthy-rows-aborted/%s' % type(e).__name__, {'instrument': inst, 'rows': [list(x) for x in clusters]},
                          'five calibrated rows', '%s: %s; calibration calls so far: %r' % (type(e).__name__, str(e)[:100], calls), direction='trace')
            continue
        finally:
            FlowCal.mef.get_transform_fxn = real
        want = []
        for k, cl in enumerate(clusters):
            chs = [c for c in fl if not (k == 3 and c == fl[0])]
            mv = [[None if str(v).strip() == 'None' else float(v) for v in str(bt.loc['R%d' % k, c + ' MEF Values']).split(',')] for c in chs]
            want.append({'n': int(bs['R%d' % k].shape[0]), 'mef_values': mv, 'mef_channels': chs, 'clustering_channels': list(cl)})
        chk.case(('calibration-calls', inst), nontrivial=True, sample={'calibration_calls': calls, 'rows_own_arguments': want} if inst == 'A' else None)
        chk.traces += 1
        if len(calls) != len(want):
            chk.violation('C10/beads/calibration-call-count', {'instrument': inst}, want, calls, direction='trace')
            continue
        for k, (c, w) in enumerate(zip(calls, want)):
            for field in ('clustering_channels', 'mef_channels', 'mef_values', 'n'):
                if c[field] != w[field]:
                    chk.violation('C10/beads/calibrated-with-other-%s' % field.replace('_', '-'), {'instrument': inst, 'beads_row': k,
                                                                                                   'rows': [list(x) for x in clusters]},
                                  w, c, direction='trace')
                    break


def trace_part(chk):
    import re
    res = tlc.require_ok(tlc.run_tlc('MC_ExcelUI', 'SPECIFICATION Spec\nCONSTANTS RowKinds <- AllRows\nMaxRows = 1\nINVARIANT Isolation\n',
                                     dump=True), 'MC_ExcelUI rows')
    rows = [st['table'][0] for st in res.dump_states() if st['pc'] == 'Return' and len(st['table']) == 1]
    rows.sort(key=lambda r: json.dumps(r, sort_keys=True))
    W.beads('missing', 'A')
    jobs = [(i, r, 'A') for i, r in enumerate(rows)] + [(i, r, 'B') for i, r in enumerate(rows) if r['beads'] == 'ok' and i % 2 == 0]
    with mp.get_context('fork').Pool(min(16, os.cpu_count() or 1)) as pool:
        recs = pool.map(trace_job, jobs, chunksize=1)
    ctl = None
    for r in recs:
        if r['k'] == 'ok' and len(r['calls']) >= 4:
            ctl = json.loads(json.dumps(r))
            ctl['calls'] = [c for c in ctl['calls'] if c[0] != 'start_end']        # a dropped step
            break
    if ctl is None:
        raise tlc.MachineryError('C10 trace: no healthy row recorded')
    recs.append(ctl)
    d = tlc.scratch('c10t_')
    tf = os.path.join(d, 'trace.ndjson')
    with open(tf, 'w') as f:
        for r in recs:
            f.write(json.dumps(r) + '\n')
    out = tlc.run_tlc('Trace_C10', 'SPECIFICATION TSpec\nCONSTANTS RowKinds <- SmallRows\nMaxRows = 0\nPOSTCONDITION AllConsumed\n',
                      workers=1, env={'TRACE_FILE': tf})
    if not out.ok:
        raise tlc.MachineryError('Trace_C10 failed: ' + (out.error_text or out.stdout[-2000:]))
    chk.add_tlc(out, 'Trace_C10')
    rejects = {int(m.group(1)): m.group(2) for m in re.finditer(r'<<"REJECT", (\d+), "([^"]+)">>', out.stdout)}
    chk.negative_control(len(recs) in rejects, 'Trace_C10 accepted a call sequence without the trimming step')
    rejects.pop(len(recs), None)
    for i, (r, job) in enumerate(zip(recs[:-1], jobs), 1):
        chk.case(('trace', job[2], json.dumps(job[1], sort_keys=True)), nontrivial=r['k'] == 'ok',
                 sample={'row': job[1], 'recorded_calls': r['calls']} if i == 3 else None)
        chk.traces += 1
        if i in rejects:
            chk.violation('C10/trace/' + rejects[i].replace('C10.', ''), {'row': job[1], 'instrument': job[2]}, {'verdict': rejects[i]},
                          {'k': r['k'], 'calls': r['calls']}, direction='trace')


def main(chk, replay=None):
    global W, STATCOLS
    chk.rule = ('GEN: healthy row kinds of ExcelUI.tla (14 unit combinations x integer/float) on two instruments, four spellings '
                'per unit, two gate fractions, tables of 1..2 rows; non-trivial = row with at least one converted channel')
    chk.assumptions = ['TLC, value parser', 'the by-hand interpreter calls only public library functions named by the spec',
                       "histogram scale for case variants of 'Channel': either grid accepted (statement silent)"]
    if replay:
        print(json.dumps(replay, indent=1, default=core.jdefault)[:3000])
        return
    inv = 'INVARIANT NeverAborted\nINVARIANT Isolation\nINVARIANT TableOrder\nINVARIANT NoStaleRead\n'
    res = tlc.require_ok(tlc.run_tlc('MC_ExcelUI', 'SPECIFICATION Spec\nCONSTANTS RowKinds <- Healthy\nMaxRows = 2\n' + inv, dump=True),
                         'MC_ExcelUI healthy')
    chk.add_tlc(res, 'MC_ExcelUI[healthy rows, <=2]')
    tables = [(st['table'], st['results']) for st in res.dump_states() if st['pc'] == 'Return' and st['table']]
    tables.sort(key=lambda tr: json.dumps(tr[0], sort_keys=True))
    # the statistics columns the spec lists
    STATCOLS = [('Mean', 'mean', False), ('Geom. Mean', 'gmean', True), ('Median', 'median', False), ('Mode', 'mode', False),
                ('Std', 'std', False), ('CV', 'cv', False), ('Geom. Std', 'gstd', True), ('Geom. CV', 'gcv', True),
                ('IQR', 'iqr', False), ('RCV', 'rcv', False)]
    spec_txt = open(os.path.join(tlc.SPEC_DIR, 'ExcelUI.tla')).read()
    for suffix, fn, positive in STATCOLS:
        if '<<"%s", "%s", %s>>' % (suffix, fn, 'TRUE' if positive else 'FALSE') not in spec_txt:
            raise tlc.MachineryError('StatColumns of ExcelUI.tla and conf_C10.STATCOLS disagree on ' + suffix)
    W = xw.World()
    for inst in ('A', 'B'):
        try:
            W.beads('none', inst)
        except Exception as e:  # noqa  - the reference beads table (seven rows, each healthy or failing in a documented way)
            chk.violation('C10/beads/reference-table-aborted/%s' % type(e).__name__, {'instrument': inst},
                          'one result or row error per beads row', '%s: %s' % (type(e).__name__, str(e)[:160]))
            calibration_calls_part(chk)
            return
    jobs = []
    for i, (rows, exp) in enumerate(tables):
        single = len(rows) == 1
        both_float_fl3 = (not single and all(r['file'] == 'ok-float' and r['units'][2] != 'empty' for r in rows))
        if chk.quick and not single and (i + chk.seed) % 23 and not both_float_fl3:
            continue
        for inst in (('A', 'B') if single else ('A',)):
            for fr in ((0.3, 0.85, 1.0) if single else (0.5,)):      # 1.0: the boundary fraction (every in-grid event)
                jobs.append((i + (7 if inst == 'B' else 0), rows, exp, inst, [fr] * len(rows)))
    with mp.get_context('fork').Pool(min(16, os.cpu_count() or 1)) as pool:
        outs = pool.map(check_job, jobs, chunksize=1)
    neg = False
    for (i, rows, exp, inst, fracs), o in zip(jobs, outs):
        chk.case(('t', inst, fracs[0], json.dumps(rows, sort_keys=True)), nontrivial=any(any(u != 'empty' for u in r['units']) for r in rows),
                 sample={'table': rows, 'instrument': inst, 'calls': [e['calls'] for e in exp], 'observed': o['obs']} if len(chk.samples) < 2 else None)
        chk.traces += 1
        for lab, r in o['labels']:
            chk.violation('C10/' + lab, {'table': rows, 'row': r, 'instrument': inst, 'fractions': fracs}, [e['calls'] for e in exp], o['obs'])
    beads_part(chk)
    calibration_calls_part(chk)
    trace_part(chk)
    # negative control: a different trim count must be noticed by the comparison
    rows, exp = [t for t in tables if len(t[0]) == 1 and t[0][0]['file'] == 'ok-int'][0]
    t = W.samples_table(rows)
    res1 = W.process(t, 'none')
    bad_calls = [c if c[0] != 'start_end' else ['start_end', [249, 100]] for c in exp[0]['calls']]
    hand = W.by_hand(rows[0], t.loc['S1'], bad_calls)
    chk.negative_control(xw.same_sample(res1['S1'], hand) is not None, 'C10 comparison accepts other trim counts')
    chk.exhaustive = not chk.quick


if __name__ == '__main__':
    run_driver('C10', main)
