"""C04 - channel metadata stays aligned with columns under every indexing expression.

MC+GEN spec/NumpyIndex + spec/gen/Gen_C04:
   run A  full key grammar at depth 1 (rows x cols, ~100 k keys)           exhaustive
   run B  reduced menu, all chains of 2                                      exhaustive
   run C  reduced menu, chains of 3                                          tlc -simulate
 every state (hist, obj) is replayed: hist applied to a real FCSData and - to validate the
 specification itself - to a plain ndarray (a spec/ndarray disagreement is a machinery failure);
 the same state is used as an assignment test (last key as write target).
"""
import json
import os
import numpy as np

from harness import core, tlc, samples
from harness.core import run_driver

import FlowCal.io  # noqa

NONE = 99
NAME = 100
SENT = 60000


def k_none(v):
    return None if v == NONE else v


def render_axis(k, C, cols_now, for_plain=False, variant=0):
    """abstract key -> python object.  cols_now: list of origin columns of the object being
    indexed (used only to translate names for the plain-ndarray reference)."""
    t = k['t']
    if t == 'int':
        return k['i']
    if t == 'slice':
        return slice(k_none(k['a']), k_none(k['b']), k_none(k['s']))
    if t == 'list':
        return [render_elem(x, cols_now, for_plain) for x in k['xs']]
    if t == 'tuple':
        return tuple(render_elem(x, cols_now, for_plain) for x in k['xs'])
    if t == 'mask':
        b = [bool(x) for x in k['xs']]
        return np.array(b, dtype=bool) if variant else b
    if t == 'ell':
        return Ellipsis
    if t == 'name':
        return render_elem(NAME + k['i'], cols_now, for_plain)
    if t == 'boollist':
        return [bool(x) for x in k['xs']]
    if t == 'npint':
        return np.int64(k['i'])
    if t == 'nparray':
        return np.array([render_elem(x, cols_now, for_plain) for x in k['xs']])
    raise ValueError(t)


class UnknownName(Exception):
    pass


LOADED_NAMES = set()
UNKNOWN_TOGGLE = [0]


def render_elem(x, cols_now, for_plain):
    if x >= NAME:
        c = x - NAME
        if not for_plain:
            if c >= len(samples.PNE) or samples.name(c) not in LOADED_NAMES:
                # a string that is no channel NAME of the file: every other time it is the LABEL ($PnS) of a channel
                # - a label is not a name, the key is unknown all the same
                UNKNOWN_TOGGLE[0] += 1
                return ('L%d' % (c % max(1, len(LOADED_NAMES)))) if UNKNOWN_TOGGLE[0] % 2 else (samples.name(c) if c < 90 else 'zz')
            return samples.name(c) if c < 90 else 'zz'
        if c in cols_now:
            return cols_now.index(c)
        raise UnknownName()
    return x


def render_key(rk, ck, C, cols_now, for_plain=False, variant=0):
    r = render_axis(rk, C, cols_now, for_plain, variant)
    if ck['t'] == 'absent':
        return r
    return (r, render_axis(ck, C, cols_now, for_plain, variant))


def cells_of(o):
    if o['k'] == 'mat':
        return [[r, c] for r in o['rows'] for c in o['cols']]
    return [list(c) for c in o['cells']]


def shape_of(o):
    if o['k'] == 'mat':
        return [len(o['rows']), len(o['cols'])]
    if o['k'] == 'vec':
        return [len(o['cells'])]
    return []


def compare_read(exp, obs, with_meta):
    """-> None if the observed projection equals the expected abstract object, else a label."""
    if exp['k'] == 'err':
        return None if obs['k'] == 'raises' else 'accepted'
    if obs['k'] == 'raises':
        return 'raises'
    if exp['k'] == 'scalar':
        if obs['k'] != 'scalar':
            return 'not-a-plain-scalar'
        return None if obs['cells'] == cells_of(exp) else 'value'
    if obs['k'] != exp['k']:
        return 'kind'
    if obs['shape'] != shape_of(exp):
        return 'shape'
    if obs['cells'] != cells_of(exp):
        return 'value'
    if with_meta:
        if obs.get('cls') != 'FCSData':
            return 'class'
        for a in samples.ATTRS:
            if obs['meta'][a] != list(exp['meta']):
                return 'meta.' + a
    return None


def RowVecStep(prev, step):
    return prev['k'] == 'vec' and prev['mm'] == 'elem' and step[1]['t'] == 'absent'


class Runner(object):
    def __init__(self, chk, R, C):
        self.chk = chk
        self.R, self.C = R, C
        self.base = samples.load_base(R, C)
        LOADED_NAMES.clear()
        LOADED_NAMES.update(self.base.channels)
        self.saved = np.array(self.base.view(np.ndarray), copy=True)
        self.plain = np.array(self.saved, copy=True)
        self.neg_done = False
        self.spec_vs_numpy = 0
        self.skipped_prefix = 0

    def apply_chain(self, start, hist, objs, for_plain):
        """objs[j] = abstract object before step j (objs[0] = base).  Returns ('ok', value) or ('raises', name)."""
        x = start
        for j, (rk, ck) in enumerate(hist):
            cols_now = list(objs[j]['meta'])
            try:
                key = render_key(rk, ck, self.C, cols_now, for_plain, variant=(j + len(hist)) % 2)
            except UnknownName:
                return 'raises', 'UnknownName'
            try:
                x = x[key]
            except Exception as e:  # noqa
                return 'raises', type(e).__name__
        return 'ok', x

    def run_state(self, hist, objs, final, kf, cv_prev, npfinal):
        chk = self.chk
        other = any(k['t'] in ('boollist', 'npint', 'nparray') for step in hist for k in step)
        # ---- validate the specification against plain numpy (machinery check)
        st, x = self.apply_chain(self.plain, hist, objs, True)
        pobs = {'k': 'raises', 'exc': x} if st == 'raises' else samples.project(x)
        d = compare_read(npfinal, pobs, False)
        if d is not None:
            raise tlc.MachineryError('spec NumpyIndex disagrees with plain ndarray on %s: expected %s observed %s (%s)'
                                     % (json.dumps(hist), json.dumps(npfinal), json.dumps(pobs, default=core.jdefault), d))
        self.spec_vs_numpy += 1
        # ---- the real sample, read; prefixes are their own states, so a chain is only judged
        #      when every earlier step conformed (a deviating prefix was reported there)
        x = self.base
        obs = None
        key_changed = False
        for j, (rk, ck) in enumerate(hist):
            try:
                key = render_key(rk, ck, self.C, list(objs[j]['meta']), False, variant=(j + len(hist)) % 2)
                key_before = repr(key)
                x_prev = x
                x = x[key]
                # the key object belongs to the caller, who may use it again on a sample laid out differently
                key_changed = key_changed or repr(key) != key_before
                obs = samples.project(x)
            except Exception as e:  # noqa
                obs = {'k': 'raises', 'exc': type(e).__name__}
            if j < len(hist) - 1:
                if compare_read(objs[j + 1], obs, True) is not None:
                    self.skipped_prefix += 1
                    return
        d = compare_read(final, obs, True)
        if d is not None and other and obs['k'] == 'raises':
            d = None                       # other forms may be refused
        if d is None and key_changed:
            d = 'caller-key-object-changed'
        if d is None and obs['k'] != 'raises' and hist[-1][1]['t'] in ('list', 'tuple') and hist[-1][1]['xs']:
            # the same column list handed over as a ONE-SHOT iterable (iterator / generator, as reversed(...), map(...),
            # a generator expression give): another form of key - refused, or values and metadata as for the list
            rkey, ckey = key
            for mk in ((lambda: iter(list(ckey))), (lambda: (c for c in list(ckey)))):
                try:
                    o1 = samples.project(x_prev[rkey, mk()])
                except Exception:  # noqa
                    continue
                d1 = compare_read(final, o1, True)
                if d1 is not None:
                    d, obs = 'one-shot-iterable/' + d1, o1
                    break
        label = '%s-%s' % (hist[-1][0]['t'], hist[-1][1]['t'])
        if not self.neg_done and final['k'] == 'mat' and len(final['meta']) >= 2 and obs['k'] == 'mat':
            bad = dict(final)
            bad['meta'] = list(reversed(final['meta']))
            chk.negative_control(compare_read(bad, obs, True) is not None, 'C04 comparator accepts permuted metadata')
            self.neg_done = True
        nontrivial = final['k'] in ('vec', 'mat') and final['meta'] != list(range(self.C))
        chk.case(('r', self.R, self.C, json.dumps(hist)), nontrivial=nontrivial,
                 sample={'hist': hist, 'expected': final, 'observed': obs} if chk.evaluations % 20011 == 7 else None)
        if d is not None:
            # known finding: a 1-D per-channel vector sub-selected through the native path keeps the
            # parent's metadata unchanged; only that exact behaviour is filed under the known class
            prev = objs[len(hist) - 1]
            same_as_parent = (kf and obs.get('k') == 'vec' and obs['cells'] == cells_of(final)
                              and RowVecStep(prev, hist[-1])
                              and all(obs['meta'][a] == list(prev['meta']) for a in samples.ATTRS))
            cls = 'C04/rowvector-subselect' if same_as_parent else 'C04/read/%s/%s' % (label, d)
            chk.violation(cls, {'R': self.R, 'C': self.C, 'hist': hist}, final, obs)
        # ---- the real sample, write through the last key
        self.write_test(hist, objs, final, other, cv_prev, label)

    def write_test(self, hist, objs, final, other, cv_prev, label):
        chk = self.chk
        b = self.base
        st, w = self.apply_chain(b, hist[:-1], objs, False)
        if st == 'raises' or not isinstance(w, np.ndarray):
            return
        rk, ck = hist[-1]
        key = render_key(rk, ck, self.C, list(objs[len(hist) - 1]['meta']), False)
        w_before = np.array(w.view(np.ndarray), copy=True)
        raised = None
        try:
            w[key] = SENT
        except Exception as e:  # noqa
            raised = type(e).__name__
        bnow = b.view(np.ndarray)
        changed_base = sorted([int(r), int(c)] for r, c in zip(*np.nonzero(bnow != self.saved)))
        wn = np.asarray(w.view(np.ndarray))
        changed_w = sorted({tuple(samples.decode_cell(v)) for v in w_before[wn != w_before].ravel()})
        bnow[...] = self.saved          # restore through a plain view
        exp_cells = sorted(set(tuple(c) for c in cells_of(final))) if final['k'] != 'err' else []
        d = None
        if final['k'] == 'err':
            if raised is None:
                d = 'write-accepted'
            elif changed_base:
                d = 'write-partial'
        elif raised is not None:
            d = None if other else 'write-raises'
            if changed_base:
                d = 'write-partial'
        else:
            if [list(c) for c in changed_w] != [list(c) for c in exp_cells]:
                d = 'write-cells'
            exp_base = [list(c) for c in exp_cells] if cv_prev else []
            if changed_base != exp_base:
                d = 'write-base'
        chk.case(('w', self.R, self.C, json.dumps(hist)), nontrivial=bool(exp_cells))
        if d is not None:
            chk.violation('C04/write/%s/%s' % (label, d), {'R': self.R, 'C': self.C, 'hist': hist, 'op': 'setitem'},
                          {'cells': [list(c) for c in exp_cells], 'through_to_base': bool(cv_prev), 'k': final['k']},
                          {'raised': raised, 'changed_base': changed_base, 'changed_target': [list(c) for c in changed_w]})


def cfg(R, C, depth, full):
    return ('SPECIFICATION Spec\nCONSTANTS R = %d\nC = %d\nDepth = %d\nFullMenu = %s\n'
            'INVARIANT Aligned\nINVARIANT ViewOnlyBasic\nINVARIANT NpDiffersOnlyWhenEmpty\n') % (R, C, depth, 'TRUE' if full else 'FALSE')


def replay_dump(chk, runner, res):
    table = {}
    states = []
    for st in res.dump_states():
        table[json.dumps(st['hist'])] = st
        states.append(st)
    for st in states:
        hist = st['hist']
        if not hist:
            continue
        objs = []
        ok = True
        for j in range(len(hist)):
            p = table.get(json.dumps(hist[:j]))
            if p is None:
                ok = False
                break
            objs.append(p['obj'])
        if not ok:
            raise tlc.MachineryError('prefix state missing in dump for ' + json.dumps(hist))
        cv_prev = table[json.dumps(hist[:-1])]['cv']
        runner.run_state(hist, objs, st['obj'], st['kf'], cv_prev, st['np'])
        chk.traces += 1


def replay_sim(chk, runner, res):
    seen = set()
    for beh in res.sim_behaviours():
        sts = [s for _, s in beh]
        if not sts:
            continue
        objs = [s['obj'] for s in sts]
        for n in range(1, len(sts)):
            hist = sts[n]['hist']
            key = json.dumps(hist)
            if key in seen or len(hist) < 3:
                continue
            seen.add(key)
            runner.run_state(hist, objs[:n], sts[n]['obj'], sts[n]['kf'], sts[n - 1]['cv'], sts[n]['np'])
            chk.traces += 1


SWITCH_SCRIPT = """
import sys, json, warnings
warnings.simplefilter('ignore')
import numpy as np
from harness import samples
d = samples.load_base(4, 3)
out = {}
for e in json.loads(sys.argv[1]):
    try:
        x = eval(e)
        out[e] = samples.project(x) if isinstance(x, np.ndarray) else repr(x)
    except Exception as ex:
        out[e] = 'raises'
print('OUT=' + json.dumps(out, default=str, sort_keys=True))
"""


def interpreter_switches(chk):
    """Keys of the 'other forms' (booleans where a channel is expected, ...) are refused - or aligned - whatever the
    interpreter's switches: the same expressions are evaluated in a child `python` and a child `python -O` (assert
    statements compiled away); the outcomes must be the same (those of the plain interpreter are what the scenarios
    above were judged on)."""
    import subprocess
    import sys
    exprs = ['d[:, True]', 'd[:, False]', 'd[:, [True, False, True]]', 'd[:, [False, True, True]]', 'd[0:2, [True, True, False]]',
             'd[:, (True, False, False)]', 'd[:, [True]]', 'd[1, True]', 'd[[0, 1], True]', 'd[:, np.bool_(True)]', 'd[:, [0, True]]',
             'd[:, [samples.name(1), False]]', 'd.resolution(True)', 'd.range(False)', 'd.amplification_type([True, False])',
             'd.channel_labels(True)', 'd[:, 1.0]', 'd[:, None]', 'd[:, [None]]', 'd[:, 3]', 'd[:, -4]', 'd[:, "zz"]', 'd[:, [0, "zz"]]',
             'd[:, {0}]', 'd[:, b"c0"]']
    outs = {}
    for flag in ('plain', '-O'):
        env = dict(os.environ, PYTHONPATH=os.pathsep.join([core.VERIF, core.REPO]))
        env.pop('PYTHONOPTIMIZE', None)
        cmd = [sys.executable] + (['-O'] if flag == '-O' else []) + ['-c', SWITCH_SCRIPT, json.dumps(exprs)]
        pr = subprocess.run(cmd, env=env, stdout=subprocess.PIPE, stderr=subprocess.PIPE, universal_newlines=True, timeout=600)
        m = [ln for ln in pr.stdout.splitlines() if ln.startswith('OUT=')]
        if pr.returncode != 0 or not m:
            raise tlc.MachineryError('interpreter_switches (%s): %s' % (flag, pr.stderr[-600:]))
        outs[flag] = json.loads(m[0][4:])
    for e in exprs:
        chk.case(('switch', e), nontrivial=True)
        chk.traces += 1
        if outs['plain'][e] != outs['-O'][e]:
            chk.violation('C04/other-form-depends-on-the-interpreter-switches', {'expression': e, 'interpreter': 'python -O'},
                          outs['plain'][e], outs['-O'][e])
    chk.extra['expressions_repeated_under_python_O'] = len(exprs)


def main(chk, replay=None):
    chk.rule = ('GEN: every (row key x column key) of the C04 grammar on small shapes, all chains of two keys '
                'from a reduced menu, sampled chains of three; each also as an assignment target. non-trivial = '
                'array result whose expected metadata is not the identity column list, or a write that addresses cells')
    chk.assumptions = ['TLC, TLA+ value parser', 'plain numpy.ndarray as indexing reference for the spec (checked every case)',
                       'origin-coded sample written by harness/fcsgen.py']
    if replay:
        sc = replay['scenario']
        print(json.dumps(replay, indent=1, default=core.jdefault)[:3000])
        return
    shapes = [(3, 3)] if chk.quick else [(3, 3), (2, 4), (4, 2)]
    for (R, C) in shapes:
        runner = Runner(chk, R, C)
        full = (R, C) == (3, 3) or not chk.quick
        resA = tlc.require_ok(tlc.run_tlc('Gen_C04', cfg(R, C, 1, True), dump=True), 'Gen_C04 depth1')
        chk.add_tlc(resA, 'Gen_C04[%dx%d,depth1,full]' % (R, C))
        replay_dump(chk, runner, resA)
        resB = tlc.require_ok(tlc.run_tlc('Gen_C04', cfg(R, C, 2, False), dump=True), 'Gen_C04 depth2')
        chk.add_tlc(resB, 'Gen_C04[%dx%d,depth2,reduced]' % (R, C))
        replay_dump(chk, runner, resB)
        n = 3000 if chk.quick else 60000
        resC = tlc.run_tlc('Gen_C04', cfg(R, C, 3, False), simulate=(n, 4), workers=1, seed=chk.seed)
        if resC.violated or 'Error' in resC.stdout:
            raise tlc.MachineryError('Gen_C04 simulate failed: ' + resC.stdout[-1500:])
        chk.add_tlc(resC, 'Gen_C04[%dx%d,depth3,simulate]' % (R, C))
        replay_sim(chk, runner, resC)
        chk.extra['spec_vs_plain_ndarray_agreements'] = chk.extra.get('spec_vs_plain_ndarray_agreements', 0) + runner.spec_vs_numpy
    from harness import session
    interpreter_switches(chk)
    session.run(chk, 'C04')          # spec/Session.tla: the property inside whole analysis sessions
    chk.exhaustive = True


if __name__ == '__main__':
    run_driver('C04', main)
