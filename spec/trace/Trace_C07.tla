---------------------------- MODULE Trace_C07 ----------------------------
(* TRACE for C07: records of real conversions (to_rfi with the file's settings,  *)
(* to_mef with power-law standard curves) of integer samples that hold events at *)
(* and next to both range limits.  The Units model says which columns carry a    *)
(* law; every such column's range term must be the same law (RangeFollows), the  *)
(* others keep their limits; the logged equality observations (limit == value of *)
(* the event that sat at the limit, bitwise; gate-then-convert mask ==           *)
(* convert-then-gate mask) must hold.                                            *)
EXTENDS Units, Json, IOUtils, TLC
VARIABLES l, verdict

Tr == ndJsonDeserialize(IOEnv.TRACE_FILE)

Judge(rec) ==
  LET C == Len(rec.uterm)
      conv == {c \in 1..C : \E j \in 1..Len(rec.cols) : rec.cols[j] = c}
  IN
  IF \E c \in 1..C : (c \in conv) # (rec.uterm[c] = "law") THEN "C07.unit-term"
  ELSE IF \E c \in 1..C : rec.uterm[c] = "unknown" THEN "C07.unit-term-unknown"
  ELSE IF \E c \in conv : rec.rterm[c] # "law" THEN "C07.range-not-converted"
  ELSE IF \E c \in (1..C) \ conv : rec.rterm[c] # "raw" THEN "C07.unconverted-range-changed"
  ELSE IF \E c \in conv : ~rec.lim_lo_bitwise[c] \/ ~rec.lim_hi_bitwise[c] THEN "C07.limit-not-bitwise-event-value"
  ELSE IF ~rec.masks_equal THEN "C07.gate-does-not-commute"
  ELSE "ok"

Init == l = 1 /\ verdict = "ok"
Next == /\ l <= Len(Tr)
        /\ l' = l + 1
        /\ verdict' = Judge(Tr[l])
        /\ (IF verdict' = "ok" THEN TRUE ELSE PrintT(<<"REJECT", l, verdict'>>))
Spec == Init /\ [][Next]_<<l, verdict>>
AllConsumed == TLCGet("stats").diameter = Len(Tr) + 1
=============================================================================
