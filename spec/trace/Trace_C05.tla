---------------------------- MODULE Trace_C05 ----------------------------
(* TRACE for C05: recorded runs of the real density gate.  Each record carries  *)
(* the events as edge codes (derived by the harness from the returned edges by   *)
(* plain comparisons), the fraction as a rational, the density RANKS of the bins *)
(* (from the documented smoothing, ties kept), and the observed masks.           *)
EXTENDS DensityGate, Json, IOUtils, TLC
VARIABLES l, verdict
Tr == ndJsonDeserialize(IOEnv.TRACE_FILE)

Judge(rec) ==
  LET kx == rec.kx  ky == rec.ky
      ev == [i \in 1..Len(rec.codes) |-> <<rec.codes[i][1], rec.codes[i][2]>>]
      mustErr == rec.fn < 0 \/ rec.fn > rec.fd \/ rec.nch # 2 \/ Len(ev) < 2
  IN
  IF mustErr THEN (IF rec.k = "err" THEN "ok" ELSE "C05.accepted-an-unsatisfiable-request")
  ELSE IF rec.k # "ok" THEN "C05.refused-a-valid-request"
  ELSE
  LET kept == {b \in Bins(kx, ky) : rec.binmask[b[1] + 1][b[2] + 1]}
      nin == NIn(ev, kx, ky)
      \* above = 1: the fraction given to the gate was fn/fd + 1e-9, so f*n lies just above fn*n/fd and the
      \* gate owes one more event whenever that product is integral (tiny positive f owes one event)
      m == IF rec.above = 1 THEN (rec.fn * nin) \div rec.fd + (IF nin > 0 THEN 1 ELSE 0) ELSE Target(rec.fn, rec.fd, nin)
      \* f*n computed in floating point may land one ulp above an integral product
      NSet == IF rec.above = 0 /\ (rec.fn * nin) % rec.fd = 0 /\ m + 1 <= nin THEN {m, m + 1} ELSE {m}
      mask == [i \in 1..Len(ev) |-> rec.mask[i]]
  IN
  IF ~\E n \in NSet : ValidGate(ev, rec.ranks, kept, n, kx, ky)
     THEN "C05." \o FailingClause(ev, rec.ranks, kept, m, kx, ky)
  ELSE IF mask # EventMask(ev, kept, kx, ky) THEN "C05.mask-is-not-the-events-of-the-kept-bins"
  ELSE IF rec.replay # rec.mask THEN "C05.replay-differs"
  ELSE IF rec.perm # rec.mask THEN "C05.depends-on-event-order"
  ELSE IF \E i \in 1..Len(ev) : rec.mask[i] /\ ~rec.mask2[i] THEN "C05.not-monotone-in-f"
  ELSE "ok"

Init == l = 1 /\ verdict = "ok"
Next == /\ l <= Len(Tr)
        /\ l' = l + 1
        /\ verdict' = Judge(Tr[l])
        /\ (IF verdict' = "ok" THEN TRUE ELSE PrintT(<<"REJECT", l, verdict'>>))
Spec == Init /\ [][Next]_<<l, verdict>>
AllConsumed == TLCGet("stats").diameter = Len(Tr) + 1
=============================================================================
