---------------------------- MODULE Trace_C01 ----------------------------
(* TRACE for C01 / C16: records of real loads of files produced by the python    *)
(* writer (hypothesis layouts, real 64-bit values, arbitrary padding, optional   *)
(* damage).  The spec re-reads the recorded bytes with its own reader and judges *)
(* the recorded outcome; it also checks the python writer against the intended   *)
(* events (rec.events, little-endian limbs / IEEE bytes).                        *)
EXTENDS FCSBytes, Json, IOUtils, TLC
VARIABLES l, verdict

Tr == ndJsonDeserialize(IOEnv.TRACE_FILE)

ObsText(rec) == {<<rec.text[i][1], rec.text[i][2]>> : i \in 1..Len(rec.text)}

Judge(rec) ==
  LET exp == ReadFile(rec.bytes, rec.rbits) IN
  IF exp.k = "refused" THEN (IF rec.k = "refused" THEN "ok" ELSE "C01.loaded-what-spec-refuses:" \o exp.why)
  ELSE IF rec.k # "ok" THEN "C01.refused-supported-layout"
  ELSE IF rec.N # exp.N \/ rec.D # exp.D THEN "C01.shape"
  ELSE IF rec.data # exp.data THEN "C01.values"
  ELSE IF ObsText(rec) # exp.text THEN "C01.keywords"
  ELSE IF rec.intact /\ rec.isint /\
          exp.data # [r \in 1..exp.N |-> [p \in 1..exp.D |-> MaskLimbs(rec.events[r][p], rec.rbits[p])]]
       THEN "C01.writer-disagrees-with-intended-events"
  ELSE IF rec.intact /\ ~rec.isint /\ exp.data # rec.events THEN "C01.writer-disagrees-with-intended-events"
  ELSE "ok"

Init == l = 1 /\ verdict = "ok"
Next == /\ l <= Len(Tr)
        /\ l' = l + 1
        /\ verdict' = Judge(Tr[l])
        /\ (IF verdict' = "ok" THEN TRUE ELSE PrintT(<<"REJECT", l, verdict'>>))
Spec == Init /\ [][Next]_<<l, verdict>>
AllConsumed == TLCGet("stats").diameter = Len(Tr) + 1
=============================================================================
