---------------------------- MODULE Trace_C02 ----------------------------
(* TRACE for C02: recorded get_transform_fxn(full_output=True) runs on synthetic *)
(* beads.  rec.unknown[c][p], rec.sat[c][p] describe the scenario by brightness  *)
(* order; the observations are the label x population contingency table, the     *)
(* rank order of the statistic values, the selected positions recovered from     *)
(* selection['mef'], lengths, reproducibility and permutation runs, and the      *)
(* logged numeric observations.                                                  *)
EXTENDS Integers, Sequences, FiniteSets, Json, IOUtils, TLC
VARIABLES l, verdict
Tr == ndJsonDeserialize(IOEnv.TRACE_FILE)

Expected(rec, c) == [p \in 1..rec.K |-> ~rec.sat[c][p] /\ ~rec.unknown[c][p]]
NSel(rec, c) == Cardinality({p \in 1..rec.K : Expected(rec, c)[p]})
MustRefuse(rec) == \E c \in 1..rec.nch : NSel(rec, c) < 3

(* every label holds exactly one generating population and vice versa *)
IsPartition(rec) ==
  /\ Len(rec.table) = rec.K
  /\ \A a \in 1..rec.K : Cardinality({p \in 1..rec.K : rec.table[a][p] > 0}) = 1
  /\ \A p \in 1..rec.K : Cardinality({a \in 1..rec.K : rec.table[a][p] > 0}) = 1

(* The clustering seeds its K components with the middle halves of K equal-size chunks of the     *)
(* events sorted by brightness.  SeedsClean: chunk i lies inside generating population i.  When   *)
(* population sizes are unequal enough for a seed window to straddle two populations the EM can  *)
(* converge to a wrong grouping (known finding C02/grouping/seeds-straddle-populations).          *)
Cum(sizes, p) == LET RECURSIVE S(_)
                     S(j) == IF j = 0 THEN 0 ELSE sizes[j] + S(j - 1)
                 IN S(p)
SeedsClean(rec) ==
  LET N == Cum(rec.sizes, rec.K) IN
  \A i \in 0..(rec.K - 1) :
     LET il == ((4 * i + 1) * N) \div (4 * rec.K)
         ih == ((4 * i + 3) * N) \div (4 * rec.K)
     IN Cum(rec.sizes, i) <= il /\ ih <= Cum(rec.sizes, i + 1)

Judge(rec) ==
  IF MustRefuse(rec) THEN (IF rec.k = "err" THEN "ok" ELSE "C02.fitted-fewer-than-three-populations")
  ELSE IF rec.k # "ok" THEN (IF SeedsClean(rec) THEN "C02.raised" ELSE "C02.grouping/seeds-straddle-populations")
  ELSE IF rec.perm_k # "ok" THEN (IF SeedsClean(rec) THEN "C02.raised-on-the-repeated-or-reordered-events"
                                 ELSE "C02.grouping/seeds-straddle-populations")
  ELSE IF rec.nlabels # rec.nevents THEN "C02.one-label-per-event"
  ELSE IF ~IsPartition(rec) THEN (IF SeedsClean(rec) THEN "C02.grouping-differs-from-generating-populations"
                                   ELSE "C02.grouping/seeds-straddle-populations")
  ELSE IF \E c \in 1..rec.nch : Len(rec.statorder[c]) # rec.K THEN "C02.one-statistic-per-population"
  ELSE IF \E c \in 1..rec.nch : rec.statorder[c] # [p \in 1..rec.K |-> p] THEN "C02.not-ordered-by-brightness"
  ELSE IF \E c \in 1..rec.nch : rec.lenrfi[c] # rec.lenmef[c] THEN "C02.rfi-mef-lengths-differ"
  ELSE IF \E c \in 1..rec.nch : rec.selected[c] # Expected(rec, c) THEN "C02.selection-or-value-assignment"
  ELSE IF ~rec.reproducible THEN "C02.not-reproducible-for-fixed-seed"
  ELSE IF ~rec.perm_same_selection THEN "C02.depends-on-event-order"
  ELSE IF ~rec.rfi_is_true_median THEN "C02.statistic-is-not-the-population-statistic"
  ELSE IF ~rec.fit_equals_reference THEN "C02.fit-differs-from-fit-of-true-medians"
  ELSE IF rec.err_permille > 100 THEN "C02.conversion-more-than-10-percent-off"
  ELSE "ok"

Init == l = 1 /\ verdict = "ok"
Next == /\ l <= Len(Tr)
        /\ l' = l + 1
        /\ verdict' = Judge(Tr[l])
        /\ (IF verdict' = "ok" THEN TRUE ELSE PrintT(<<"REJECT", l, verdict'>>))
Spec == Init /\ [][Next]_<<l, verdict>>
AllConsumed == TLCGet("stats").diameter = Len(Tr) + 1
=============================================================================
