---------------------------- MODULE Trace_C14 ----------------------------
(* TRACE for C14: records of real read_fcs_text_segment / FCSFile calls on       *)
(* hypothesis-generated dictionaries.  Each record carries the bytes that were   *)
(* read (q), the delimiter code, the mode and the projected outcome; the spec    *)
(* decodes q itself and judges the observation.  Total verdict per record.       *)
EXTENDS FCSText, Json, IOUtils, TLC
VARIABLES l, verdict

Tr == ndJsonDeserialize(IOEnv.TRACE_FILE)

ObsDict(rec) == {<<rec.dict[i][1], rec.dict[i][2]>> : i \in 1..Len(rec.dict)}

Judge(rec) ==
  IF rec.op = "segment" THEN
    LET exp == Outcome(rec.q, rec.d, rec.supp) IN
    IF exp.k = "err" THEN (IF rec.k = "err" THEN "ok" ELSE "C14.accepted-illformed")
    ELSE IF rec.k # "ok" THEN "C14.refused-wellformed"
    ELSE IF ObsDict(rec) \notin exp.dicts THEN "C14.pairs"
    ELSE IF rec.warn # exp.warn THEN "C14.warn"
    ELSE "ok"
  ELSE IF rec.op = "merge" THEN     \* whole file: primary + supplemental TEXT, ANALYSIS
    LET p == Outcome(rec.q, rec.d, FALSE)
        s == IF rec.sn > Len(rec.sq) THEN [k |-> "err"]          \* announced ($BEGINSTEXT..$ENDSTEXT), not (wholly) in the file
             ELSE Outcome(rec.sq, rec.d, TRUE)
        a == Outcome(rec.aq, rec.d, TRUE)
    IN IF p.k = "err" \/ s.k = "err" THEN (IF rec.k = "err" THEN "ok" ELSE "C14.accepted-illformed")
       ELSE IF rec.k # "ok" THEN "C14.refused-wellformed"
       ELSE IF ~(\E pd \in p.dicts, sd \in s.dicts : ObsDict(rec) = Merge(pd, sd)) THEN "C14.merge"
       ELSE IF a.k = "err" THEN (IF rec.adict = <<>> /\ rec.awarn THEN "ok" ELSE "C14.analysis-illformed")
       ELSE IF {<<rec.adict[i][1], rec.adict[i][2]>> : i \in 1..Len(rec.adict)} \notin a.dicts THEN "C14.analysis"
       ELSE "ok"
  ELSE "C14.unknown-op"

Init == l = 1 /\ verdict = "ok"
Next == /\ l <= Len(Tr)
        /\ l' = l + 1
        /\ verdict' = Judge(Tr[l])
        /\ (IF verdict' = "ok" THEN TRUE ELSE PrintT(<<"REJECT", l, verdict'>>))
Spec == Init /\ [][Next]_<<l, verdict>>
AllConsumed == TLCGet("stats").diameter = Len(Tr) + 1
=============================================================================
