--------------------------- MODULE Trace_Session ---------------------------
(* TRACE direction for Session: sessions of the REAL library, driven at random  *)
(* (any ordered list of distinct columns by name / position / both, up to 14    *)
(* steps, from a raw or an all-RFI sample), are recorded step by step - after   *)
(* every step the real sample is projected to the specification's vocabulary -  *)
(* and each recorded step must be the step Session takes (Apply), from the      *)
(* state Session is in.  One ndjson line per step:                              *)
(*   sid, k     session and step number (k = 0: the freshly loaded sample)      *)
(*   iu         units the session starts from (k = 0)                           *)
(*   op, A      step name and argument (1-based positions in the current layout)*)
(*   out        "ok" | "err" - did the library raise                            *)
(*   cols       per column: ch (file channel, 0 = unknown name), us (units whose*)
(*              law the values follow), rus (units whose law the limits follow) *)
(*   rows       recorded events present, in order (identified by value)         *)
(*   meta_ok    per-column metadata (by position and by name) are the file's    *)
(*   input_same the object handed to the step was left as it was                *)
(*   dup_equal  (dup) the copy equals its source in every observable            *)
(* The verdict is total and names the failing clause; a rejected session is     *)
(* dropped (its later lines are skipped), the others are still judged.          *)
EXTENDS Session, Json, IOUtils, TLC
VARIABLES l, verdict, dead

Tr == ndJsonDeserialize(IOEnv.TRACE_FILE)

Judge(rec, exp) ==
  IF ~rec.input_same THEN "input"
  ELSE IF rec.out = "err" /\ exp.res = "ok" THEN "refused"
  ELSE IF rec.out = "ok" /\ exp.res = "err" THEN "accepted"
  ELSE IF exp.res = "err" THEN "ok"
  ELSE IF Len(rec.cols) # Len(exp.cols) \/ Len(rec.rows) # Len(exp.rows) THEN "shape"
  ELSE IF \E i \in DOMAIN exp.cols : rec.cols[i].ch # exp.cols[i][1] THEN "channel"
  ELSE IF \E i \in DOMAIN exp.cols : exp.cols[i][2] \notin Range(rec.cols[i].us) THEN "units"
  ELSE IF \E i \in DOMAIN exp.rows : rec.rows[i] # exp.rows[i] THEN "rows"
  ELSE IF \E i \in DOMAIN exp.cols : exp.cols[i][2] \notin Range(rec.cols[i].rus) THEN "range"
  ELSE IF ~rec.meta_ok THEN "meta"
  ELSE IF rec.op = "dup" /\ ~rec.dup_equal THEN "dup"
  ELSE "ok"

TInit == /\ l = 1 /\ verdict = "ok" /\ dead = FALSE
         /\ cols = <<>> /\ rows = <<>> /\ res = "ok" /\ hist = <<>>

Keep == UNCHANGED <<cols, rows, res, hist>>

TNext ==
  /\ l <= Len(Tr)
  /\ l' = l + 1
  /\ LET rec == Tr[l] IN
     IF rec.k = 0 THEN
        LET c0 == [i \in 1..NCh |-> <<i, rec.iu>>]
            r0 == [i \in 1..NEv |-> i]
            v  == Judge(rec, St(c0, r0, "ok"))
        IN /\ cols' = c0 /\ rows' = r0 /\ res' = "ok" /\ hist' = <<>>
           /\ verdict' = (IF v = "ok" THEN "ok" ELSE "start." \o v)
           /\ dead' = (v # "ok")
     ELSE IF dead THEN Keep /\ verdict' = "ok" /\ dead' = dead
     ELSE IF ~Pre(rec.op, rec.A, cols, rows) THEN Keep /\ verdict' = "driver." \o rec.op /\ dead' = TRUE
     ELSE LET exp == Apply(rec.op, rec.A, cols, rows)
              v   == Judge(rec, exp)
          IN /\ cols' = exp.cols /\ rows' = exp.rows /\ res' = exp.res
             /\ hist' = Append(hist, <<rec.op, rec.A, "any">>)
             /\ verdict' = (IF v = "ok" THEN "ok" ELSE rec.op \o "." \o v)
             /\ dead' = (v # "ok")
  /\ (IF verdict' = "ok" THEN TRUE ELSE PrintT(<<"REJECT", l, verdict'>>))

TSpec == TInit /\ [][TNext]_<<vars, l, verdict, dead>>
AllConsumed == TLCGet("stats").diameter = Len(Tr) + 1
(* every accepted step is a step of Session: its structural invariants hold along recorded sessions too *)
TColsDistinct == dead \/ ColsDistinct
TMefOnlyCalibrated == dead \/ MefOnlyCalibrated
=============================================================================
