---------------------------- MODULE Trace_C10 ----------------------------
(* TRACE for C10: the sequence of library calls that process_samples_table       *)
(* actually performed for a row (recorded by wrappers the harness installs       *)
(* around to_rfi, the beads' transformation functions, start_end, high_low and   *)
(* density2d), abstracted to the vocabulary of ExcelUI.tla.  A row's recorded    *)
(* sequence must be exactly the program RowOutcome emits for that row: an extra, *)
(* missing, reordered or differently parameterised call is rejected even when    *)
(* the final numbers happen to coincide.                                         *)
EXTENDS MC_ExcelUI, Json, IOUtils, TLC
VARIABLES l, verdict
Tr == ndJsonDeserialize(IOEnv.TRACE_FILE)

RowOf(rec) == [file |-> rec.file, frac |-> rec.frac, units |-> <<rec.units[1], rec.units[2], rec.units[3]>>, beads |-> rec.beads]
(* calls as sequences of <<name, args>> with args a sequence of strings / numbers rendered as strings *)
Render(c) == <<c[1], c[2]>>
Judge(rec) ==
  LET exp == RowOutcome(RowOf(rec)) IN
  IF exp.k = "err" THEN (IF rec.k = "err" THEN "ok" ELSE "C10.faulty-row-processed")
  ELSE IF rec.k # "ok" THEN "C10.healthy-row-error"
  ELSE IF Len(rec.calls) < Len(exp.calls) THEN "C10.missing-call"
  ELSE IF Len(rec.calls) > Len(exp.calls) THEN "C10.extra-call"
  ELSE IF \E i \in 1..Len(exp.calls) : rec.calls[i][1] # exp.calls[i][1] THEN "C10.calls-reordered-or-other-function"
  ELSE IF \E i \in 1..Len(exp.calls) : rec.calls[i][2] # exp.calls[i][2] THEN "C10.call-with-other-parameters"
  ELSE "ok"

TInit == Init /\ l = 1 /\ verdict = "ok"          \* the batch machine itself stays in its initial state
TNext == /\ l <= Len(Tr)
         /\ l' = l + 1
         /\ verdict' = Judge(Tr[l])
         /\ (IF verdict' = "ok" THEN TRUE ELSE PrintT(<<"REJECT", l, verdict'>>))
         /\ UNCHANGED vars
TSpec == TInit /\ [][TNext]_<<vars, l, verdict>>
AllConsumed == TLCGet("stats").diameter = Len(Tr) + 1
=============================================================================
