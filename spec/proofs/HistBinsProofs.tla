---------------------------- MODULE HistBinsProofs ----------------------------
(* Unbounded companions of the HistBins theorems that TLC checks for small res:  *)
(* with n = res bins every representable value v is the centre of bin v, the     *)
(* edges increase and the grid covers the span - for EVERY resolution.           *)
EXTENDS Integers, TLAPS

Num(k, res, n) == 2 * k * res - n          \* numerator of Frac(k, res, n); denominator 2 (res - 1) n > 0

THEOREM Centred ==
  \A res \in Nat, v \in Nat :
     (res >= 2 /\ v <= res - 1) =>
        (Num(v, res, res) + Num(v + 1, res, res)) * (res - 1) = 2 * v * (2 * (res - 1) * res)
BY DEF Num

THEOREM Increasing ==
  \A res \in Nat, n \in Nat, k \in Nat : (res >= 2 /\ n >= 1) => Num(k, res, n) < Num(k + 1, res, n)
BY DEF Num

THEOREM Covers ==
  \A res \in Nat, n \in Nat : (res >= 2 /\ n >= 1) =>
     /\ Num(0, res, n) < 0
     /\ Num(n, res, n) > 2 * (res - 1) * n
BY DEF Num
=============================================================================
