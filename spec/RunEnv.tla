------------------------------ MODULE RunEnv ------------------------------
(* The file system around excel_ui.run(): the workflow is run repeatedly on the  *)
(* same workbook, from the workbook's folder or from elsewhere, with folders     *)
(* named like its plot folders lying around in the current directory.  Whatever  *)
(* the history, a run of a well-formed workbook completes (C15), writes its      *)
(* output workbook next to the input and its figures under the WORKBOOK's folder,*)
(* and leaves the current directory's look-alike folders alone.                  *)
EXTENDS Integers, Sequences, FiniteSets
CONSTANTS MaxOps
VARIABLES cwd, dirs, figs, outx, res, hist,
          data,     \* which recording the sample's FCS file holds right now (0: the original, 1: another one under the same name)
          shown     \* which recording the output workbook describes (Unset before the first run)
vars == <<cwd, dirs, figs, outx, res, hist, data, shown>>
Unset == 2
Places == {"wb", "other"}
Kinds == {"plot_beads", "plot_samples"}
Dir(p, k) == <<p, k>>

Init == cwd = "wb" /\ dirs = {} /\ figs = {} /\ outx = FALSE /\ res = "none" /\ hist = <<>> /\ data = 0 /\ shown = Unset
Log(op) == Len(hist) < MaxOps /\ hist' = Append(hist, op)
Chdir(p) == cwd # p /\ cwd' = p /\ Log(<<"chdir", p>>) /\ UNCHANGED <<dirs, figs, outx, res, data, shown>>
(* somebody (an earlier, unrelated analysis) leaves a folder of that name in the current directory *)
Stray(k) == /\ cwd = "other" /\ Dir("other", k) \notin dirs
            /\ dirs' = dirs \cup {Dir("other", k)} /\ Log(<<"stray", k>>) /\ UNCHANGED <<cwd, figs, outx, res, data, shown>>
Run(plot) == /\ Log(<<"run", IF plot THEN "plots" ELSE "noplots">>)
             /\ outx' = TRUE /\ res' = "completed"
             /\ dirs' = IF plot THEN dirs \cup {Dir("wb", k) : k \in Kinds} ELSE dirs
             /\ figs' = IF plot THEN figs \cup {Dir("wb", k) : k \in Kinds} ELSE figs
             /\ shown' = data                \* a run describes the files as they are NOW
             /\ UNCHANGED <<cwd, data>>
(* between two runs the sample's file is replaced by another recording under the same name (re-exported, re-acquired) *)
Replace == /\ outx /\ Log(<<"replace", "S1">>) /\ data' = 1 - data
           /\ UNCHANGED <<cwd, dirs, figs, outx, res, shown>>
Next == Replace \/ (\E p \in Places : Chdir(p)) \/ (\E k \in Kinds : Stray(k)) \/ (\E b \in BOOLEAN : Run(b))
Spec == Init /\ [][Next]_vars

StrayUntouched == \A k \in Kinds : Dir("other", k) \notin figs
FiguresUnderWorkbook == figs \subseteq {Dir("wb", k) : k \in Kinds} /\ figs \subseteq dirs
RunCompletes == [][hist' # hist /\ hist'[Len(hist')][1] = "run" => res' = "completed" /\ outx']_vars
OutputFaithful == [][hist' # hist /\ hist'[Len(hist')][1] = "run" => shown' = data']_vars
NothingRemoved == [][dirs \subseteq dirs' /\ figs \subseteq figs' /\ (outx => outx')]_vars
=============================================================================
