---------------------------- MODULE Units ----------------------------
(* Unit conversion of a sample as symbolic terms.  Each column carries the       *)
(* sequence of laws applied to its events (unit term) and the sequence applied   *)
(* to its range limits (range term).  A law is one of                            *)
(*   Log(a0, a1, r)   x -> a1 * 10^(a0 * x / r)                                   *)
(*   Lin(g)           x -> x / g                                                  *)
(*   Curve(i)         x -> standard curve number i                                *)
(* Rationals are <<num, den>>.  The harness identifies a term by evaluating the  *)
(* documented formula on the original column.                                    *)
EXTENDS Integers, Sequences, FiniteSets

NoVal == <<>>                                  \* Python None
Log(a0, a1, r) == [k |-> "log", a0 |-> a0, a1 |-> a1, r |-> r, g |-> NoVal, id |-> 0]
Lin(g)         == [k |-> "lin", a0 |-> NoVal, a1 |-> NoVal, r |-> 0, g |-> g, id |-> 0]
Curve(i)       == [k |-> "curve", a0 |-> NoVal, a1 |-> NoVal, r |-> 0, g |-> NoVal, id |-> i]
Refused == [k |-> "refused", terms |-> <<>>]
Converted(terms) == [k |-> "ok", terms |-> terms]       \* terms[c] = sequence of laws applied to column c by THIS call

(* acquisition settings of a container: amp[c] = <<a0, a1>> (after the a1 = 0    *)
(* fix-up of the reader), gain[c] rational or NoVal, res[c] integer; a plain      *)
(* array has none (isSample = FALSE).                                             *)

(* ---- argument normalisation of to_rfi (transform.py l.143-201) ----            *)
(* chform  = [t |-> "none" | "scalar" | "list", cols |-> columns (1-based)]        *)
(* setting = [t |-> "none" | "scalar" | "list", vals |-> per requested channel,    *)
(*            NoVal entries meaning None]                                          *)
Requested(chform, C) == IF chform.t = "none" THEN [j \in 1..C |-> j] ELSE chform.cols

ArgOK(chform, arg, C) ==
  IF chform.t = "scalar" THEN arg.t \in {"none", "scalar"}
  ELSE arg.t = "none" \/ (arg.t = "list" /\ Len(arg.vals) = Len(Requested(chform, C)))
ArgVal(chform, arg, j) == IF arg.t = "none" THEN NoVal ELSE arg.vals[j]

(* ---- per-channel selection of the law (transform.py l.206-245) ----            *)
LawFor(c, atOv, agOv, resOv, isSample, S) ==
  LET at == IF atOv # NoVal THEN atOv ELSE IF isSample THEN S.amp[c] ELSE NoVal IN
  IF at = NoVal THEN NoVal                                                 \* amplification type unknown: refuse
  ELSE IF at[1] = <<0, 1>> THEN
         Lin(IF agOv # NoVal THEN agOv ELSE IF isSample /\ S.gain[c] # NoVal THEN S.gain[c] ELSE <<1, 1>>)
  ELSE LET r == IF resOv # NoVal THEN resOv[1] ELSE IF isSample THEN S.res[c] ELSE 0 IN
       IF r = 0 THEN NoVal ELSE Log(at[1], at[2], r)

ToRFI(chform, at, ag, res, isSample, S, C) ==
  IF ~ArgOK(chform, at, C) \/ ~ArgOK(chform, ag, C) \/ ~ArgOK(chform, res, C) THEN Refused
  ELSE LET req == Requested(chform, C)
           law(j) == LawFor(req[j], ArgVal(chform, at, j), ArgVal(chform, ag, j), ArgVal(chform, res, j), isSample, S)
       IN IF \E j \in 1..Len(req) : law(j) = NoVal THEN Refused
          ELSE Converted([c \in 1..C |->
                 LET js == {j \in 1..Len(req) : req[j] = c} IN
                 IF js = {} THEN <<>> ELSE <<law(CHOOSE j \in js : TRUE)>>])

(* ---- to_mef (transform.py l.294-338): curve i belongs to scCols[i] ----         *)
(* scCols = NoVal means "all columns in order"                                     *)
ToMEF(chform, nCurves, scCols0, C) ==
  LET scCols == IF scCols0 = NoVal THEN [j \in 1..C |-> j] ELSE scCols0
      req == IF chform.t = "none" THEN scCols ELSE chform.cols
  IN IF Len(scCols) # nCurves THEN Refused
     ELSE IF \E j \in 1..Len(req) : ~\E i \in 1..Len(scCols) : scCols[i] = req[j] THEN Refused
     ELSE Converted([c \in 1..C |->
            IF \E j \in 1..Len(req) : req[j] = c
            THEN <<Curve(CHOOSE i \in 1..Len(scCols) : scCols[i] = c)>> ELSE <<>>])

(* ---- a sample's unit state under a history of conversions ----                 *)
Apply(state, res) == [c \in 1..Len(state) |-> state[c] \o res.terms[c]]
Raw(C) == [c \in 1..C |-> <<>>]
=============================================================================
