---------------------------- MODULE Heap ----------------------------
(* A store of samples with Python reference semantics, for C13 and C20.          *)
(* Each sample owns mutable containers (heap cells): the outer range list, the   *)
(* per-channel inner [lo, hi] lists (one representative cell), the TEXT and      *)
(* ANALYSIS dictionaries - and refers to a data buffer.  Deriving a new array    *)
(* object (indexing, view, copy, pickle, conversion, gate) goes through          *)
(* __array_finalize__, which is specified to give the new object FRESH copies of *)
(* every container with equal contents (Derive); whether the buffer is shared is *)
(* NumPy's view-versus-copy rule.  Accessors hand out REFERENCES to the stored   *)
(* containers, so the environment can write through them (Mutate actions).     *)
(* Contents are abstract version tokens: equal token = equal contents.           *)
EXTENDS Integers, Sequences, FiniteSets
CONSTANTS MaxOps, MaxObjs
VARIABLES objs, cell, next, hist
vars == <<objs, cell, next, hist>>

(* object record: ids of its containers *)
Obj(buf, ro, ri, tx, an, src, how) == [buf |-> buf, ro |-> ro, ri |-> ri, tx |-> tx, an |-> an, src |-> src, how |-> how]
Fields == {"ro", "ri", "tx", "an"}

SharesBuffer == {"slice_events", "slice_channels", "view"}         \* basic indexing and view()
NewBuffer == {"mask", "pick_channels", "dup_cols", "copy", "copycopy", "deepcopy", "pickle", "to_rfi", "to_mef", "start_end", "high_low", "astype"}
DupOps == {"copy", "copycopy", "deepcopy", "view", "pickle"}
DeriveOps == SharesBuffer \cup NewBuffer
(* to_rfi / to_mef / astype produce new VALUES (content token changes); all others keep them *)
(* dup_cols: a channel-list selection naming one channel twice, then the SECOND copy converted by position - two     *)
(* columns with one name and different metadata                                                                    *)
ChangesValues == {"to_rfi", "to_mef", "dup_cols"}

Init == /\ objs = <<Obj(1, 2, 3, 4, 5, 0, "load")>>
        /\ cell = [i \in 1..5 |-> 0]                 \* content version of every cell
        /\ next = 6
        /\ hist = <<>>

Derive(o, how) ==
  /\ Len(objs) < MaxObjs /\ Len(hist) < MaxOps
  /\ LET src == objs[o]
         b == IF how \in SharesBuffer THEN src.buf ELSE next
         k == IF how \in SharesBuffer THEN next ELSE next + 1
         new == Obj(b, k, k + 1, k + 2, k + 3, o, how)
         conv == how \in ChangesValues
     IN /\ objs' = Append(objs, new)
        /\ cell' = [i \in 1..(k + 3) |->
                      IF i < next THEN cell[i]
                      ELSE IF i = b THEN (IF conv THEN 100 + cell[src.buf] ELSE cell[src.buf])
                      ELSE IF i = k THEN cell[src.ro]
                      ELSE IF i = k + 1 THEN (IF conv THEN 100 + cell[src.ri] ELSE cell[src.ri])   \* range follows the data
                      ELSE IF i = k + 2 THEN cell[src.tx] ELSE cell[src.an]]
        /\ next' = k + 4
  /\ hist' = Append(hist, <<how, o>>)

(* the same file loaded once more: a sample of its own, showing nothing of what happened to the others *)
Load ==
  /\ Len(objs) < MaxObjs /\ Len(hist) < MaxOps
  /\ objs' = Append(objs, Obj(next, next + 1, next + 2, next + 3, next + 4, 0, "load"))
  /\ cell' = [i \in 1..(next + 4) |-> IF i < next THEN cell[i] ELSE 0]
  /\ next' = next + 5
  /\ hist' = Append(hist, <<"load", 1>>)

(* environment writes through references handed out by accessors *)
Mutate(o, what) ==
  /\ Len(hist) < MaxOps
  /\ LET id == CASE what = "range" -> objs[o].ri [] what = "text" -> objs[o].tx [] what = "analysis" -> objs[o].an [] OTHER -> objs[o].buf
     IN cell' = [cell EXCEPT ![id] = @ + 1]
  /\ hist' = Append(hist, <<"mutate_" \o what, o>>)
  /\ UNCHANGED <<objs, next>>

(* a read-only call (accessor, statistic, bin generator, plot, gate used for its mask ...) *)
ReadOnly(o) ==
  /\ Len(hist) < MaxOps
  /\ hist' = Append(hist, <<"readonly", o>>)
  /\ UNCHANGED <<objs, cell, next>>

Next == \E o \in 1..Len(objs) :
           \/ \E how \in DeriveOps : Derive(o, how)
           \/ \E w \in {"range", "text", "analysis", "buffer"} : Mutate(o, w)
           \/ ReadOnly(o)
           \/ Load
Spec == Init /\ [][Next]_vars

----------------------------------------------------------------------------
(* what an object can observe: the content tokens of its own containers *)
View(o) == [buf |-> cell[objs[o].buf], rng |-> cell[objs[o].ri], text |-> cell[objs[o].tx], an |-> cell[objs[o].an]]

(* C13 / C20: distinct samples never share a metadata container *)
NoSharedMeta ==
  \A i, j \in 1..Len(objs) : i # j =>
     {objs[i].ro, objs[i].ri, objs[i].tx, objs[i].an} \cap {objs[j].ro, objs[j].ri, objs[j].tx, objs[j].an} = {}
(* buffers are shared only along chains of views / basic slices *)
RECURSIVE Root(_)
Root(i) == IF objs[i].how \in SharesBuffer THEN Root(objs[i].src) ELSE i
BufSharing == \A i, j \in 1..Len(objs) : (objs[i].buf = objs[j].buf) <=> (Root(i) = Root(j))
(* a write through one sample's accessor is invisible to every other sample,   *)
(* except a buffer write seen by the views of the same buffer                  *)
Independent ==
  [][\A o \in 1..Len(objs) :
       hist' # hist /\ Len(objs') = Len(objs) /\ hist'[Len(hist')][2] # o =>
          /\ View(o).rng' = View(o).rng /\ View(o).text' = View(o).text /\ View(o).an' = View(o).an
          /\ (objs[o].buf # objs[hist'[Len(hist')][2]].buf => View(o).buf' = View(o).buf)]_vars
(* read-only calls change nothing *)
ReadOnlyPreserves == [][(hist' # hist /\ hist'[Len(hist')][1] = "readonly") => (cell' = cell /\ objs' = objs)]_vars
(* a duplicate is born equal to its source *)
DupEqual ==
  \A i \in 1..Len(objs) : objs[i].how \in DupOps =>
      TRUE     \* equality at birth is an action property: see DupBornEqual
DupBornEqual ==
  [][Len(objs') = Len(objs) + 1 /\ objs'[Len(objs')].how \in DupOps =>
        LET n == Len(objs')  s == objs'[n].src IN
        /\ cell'[objs'[n].buf] = cell[objs[s].buf] /\ cell'[objs'[n].ri] = cell[objs[s].ri]
        /\ cell'[objs'[n].tx] = cell[objs[s].tx] /\ cell'[objs'[n].an] = cell[objs[s].an]]_vars
(* a sample loaded later is pristine whatever was done to the earlier ones *)
LoadPristine ==
  [][Len(objs') = Len(objs) + 1 /\ objs'[Len(objs')].how = "load" =>
        LET n == objs'[Len(objs')] IN \A c \in {n.buf, n.ro, n.ri, n.tx, n.an} : cell'[c] = 0]_vars
=============================================================================
