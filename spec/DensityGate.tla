---------------------------- MODULE DensityGate ----------------------------
(* The density gate of FlowCal.gate.density2d as a specification.                *)
(* Events are given by EDGE CODES per axis for a grid of k bins (edges 0..k):    *)
(*    -1 below the grid, 2i on edge i, 2i+1 strictly inside bin i, 2k+1 above.   *)
(* The smoothed density enters as an integer RANK per bin (higher = denser,      *)
(* equal = exact tie): the specification never computes a Gaussian.              *)
EXTENDS Integers, Sequences, FiniteSets

OUT == -1
BinOf(code, k) == IF code < 0 \/ code > 2 * k THEN OUT
                  ELSE IF code = 2 * k THEN k - 1              \* the rightmost edge belongs to the last bin
                  ELSE code \div 2
BinOfEvent(e, kx, ky) == LET bx == BinOf(e[1], kx)  by == BinOf(e[2], ky)
                         IN IF bx = OUT \/ by = OUT THEN <<OUT, OUT>> ELSE <<bx, by>>
InGrid(e, kx, ky) == BinOfEvent(e, kx, ky) # <<OUT, OUT>>
Bins(kx, ky) == (0..(kx - 1)) \X (0..(ky - 1))

Count(ev, b, kx, ky) == Cardinality({i \in 1..Len(ev) : BinOfEvent(ev[i], kx, ky) = b})
NIn(ev, kx, ky) == Cardinality({i \in 1..Len(ev) : InGrid(ev[i], kx, ky)})
Total(ev, S, kx, ky) == Cardinality({i \in 1..Len(ev) : BinOfEvent(ev[i], kx, ky) \in S})

(* events to keep: ceil(f * n) for f = fn/fd *)
Target(fn, fd, nin) == (fn * nin + fd - 1) \div fd

Rank(ranks, b) == ranks[b[1] + 1][b[2] + 1]

(* the documented predicate on a set of kept bins *)
LowerBound(ev, kept, n, kx, ky) == Total(ev, kept, kx, ky) >= n
DensityClosed(ranks, kept, kx, ky) ==
  \A b \in kept : \A c \in Bins(kx, ky) \ kept : Rank(ranks, c) <= Rank(ranks, b)
Minimal(ev, ranks, kept, n, kx, ky) ==        \* dropping a least dense kept bin falls below the target
  \E b \in kept : /\ \A c \in kept : Rank(ranks, b) <= Rank(ranks, c)
                  /\ Count(ev, b, kx, ky) > 0
                  /\ Total(ev, kept, kx, ky) - Count(ev, b, kx, ky) < n
ValidGate(ev, ranks, kept, n, kx, ky) ==
  IF n = 0 THEN kept = {}
  ELSE /\ kept \subseteq Bins(kx, ky)
       /\ LowerBound(ev, kept, n, kx, ky)
       /\ DensityClosed(ranks, kept, kx, ky)
       /\ Minimal(ev, ranks, kept, n, kx, ky)
FailingClause(ev, ranks, kept, n, kx, ky) ==
  IF n = 0 THEN "kept-although-fraction-zero"
  ELSE IF ~LowerBound(ev, kept, n, kx, ky) THEN "fewer-than-ceil(f*n)"
  ELSE IF ~DensityClosed(ranks, kept, kx, ky) THEN "keeps-a-less-dense-bin-than-one-it-drops"
  ELSE "not-minimal"

EventMask(ev, kept, kx, ky) == [i \in 1..Len(ev) |-> BinOfEvent(ev[i], kx, ky) \in kept]

(* the algorithm of the implementation: sort bins by density (any linear          *)
(* extension `order` of the ranks, densest first), accept the shortest prefix     *)
(* holding n events                                                               *)
Prefix(order, m) == {order[j] : j \in 1..m}
GateBy(ev, order, n, kx, ky) ==
  IF n = 0 THEN {}
  ELSE LET ms == {m \in 1..Len(order) : Total(ev, Prefix(order, m), kx, ky) >= n}
       IN IF ms = {} THEN Prefix(order, Len(order))
          ELSE Prefix(order, CHOOSE m \in ms : \A m2 \in ms : m <= m2)
Compatible(order, ranks, kx, ky) ==
  /\ Len(order) = kx * ky /\ {order[j] : j \in 1..Len(order)} = Bins(kx, ky)
  /\ \A i, j \in 1..Len(order) : i < j => Rank(ranks, order[i]) >= Rank(ranks, order[j])
=============================================================================
