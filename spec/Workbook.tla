---------------------------- MODULE Workbook ----------------------------
(* write_workbook followed by read_table(index_col = 'ID') on abstract tables.   *)
(* A row is <<id, cell>>: id in {"a", "b", "c", "" (no identifier)}; a cell is    *)
(* "s" (string), "i" (integer), "f" (float) or "" (empty).  Rows without an      *)
(* identifier are dropped when reading; identifiers duplicated AMONG THE ROWS    *)
(* THAT HAVE ONE are refused; everything else comes back unchanged, in order.    *)
(* The output workbook of run(): sheet order and the columns appended to the     *)
(* Beads and Samples sheets.                                                      *)
EXTENDS Integers, Sequences, FiniteSets
CONSTANTS MaxRows
VARIABLES table, out
vars == <<table, out>>
Ids == {"a", "b", ""}
Cells == {"s", "i", "f", ""}

Keep(t) == SelectSeq(t, LAMBDA r : r[1] # "")
HasDup(t) == \E i, j \in 1..Len(t) : i # j /\ t[i][1] = t[j][1]
ReadBack(t) == IF HasDup(Keep(t)) THEN [k |-> "refused", rows |-> <<>>] ELSE [k |-> "ok", rows |-> Keep(t)]

Init == table = <<>> /\ out = [k |-> "building", rows |-> <<>>]
AddRow == /\ out.k = "building" /\ Len(table) < MaxRows
          /\ \E id \in Ids, c \in Cells : table' = Append(table, <<id, c>>)
          /\ UNCHANGED out
RoundTrip == out.k = "building" /\ out' = ReadBack(table) /\ UNCHANGED table
Next == AddRow \/ RoundTrip
Spec == Init /\ [][Next]_vars

NothingInvented == out.k = "ok" => \A i \in 1..Len(out.rows) : \E j \in 1..Len(table) : table[j] = out.rows[i]
OnlyUnidentifiedDropped == out.k = "ok" => Len(out.rows) = Cardinality({j \in 1..Len(table) : table[j][1] # ""})
RefusedOnlyForDuplicates == out.k = "refused" => \E i, j \in 1..Len(table) : i # j /\ table[i][1] # "" /\ table[i][1] = table[j][1]

(* ---- output workbook of run() ---- *)
Sheets(hist) == <<"Instruments", "Beads", "Samples">> \o (IF hist THEN <<"Histograms">> ELSE <<>>) \o <<"About Analysis">>
RowColumns == <<"Analysis Notes", "Number of Events", "Acquisition Time (s)">>
BeadsChannelColumns == <<"Detector Volt.", "Amp. Type", "Beads Model", "Beads Params. Names", "Beads Params. Values">>
SamplesChannelColumns == <<"Detector Volt.", "Amp. Type", "Mean", "Geom. Mean", "Median", "Mode", "Std", "CV", "Geom. Std",
                           "Geom. CV", "IQR", "RCV">>
(* ---- the steps of run(), in the documented order (the workflow's docstring numbers them): each later step reads what   *)
(* an earlier one wrote - the samples are processed against the bead table AFTER its statistics columns (detector       *)
(* voltage, amplifier type per channel) were added, which is what the "other settings" row faults are decided from      *)
RunProgram(hist) ==
  <<"read_table:Instruments", "read_table:Beads", "read_table:Samples", "process_beads_table", "add_beads_stats",
    "process_samples_table", "add_samples_stats">>
  \o (IF hist THEN <<"generate_histograms_table">> ELSE <<>>) \o <<"generate_about_table", "write_workbook">>
Before(prog, a, b) == \E i, j \in 1..Len(prog) : i < j /\ prog[i] = a /\ prog[j] = b
ASSUME \A h \in BOOLEAN : Before(RunProgram(h), "add_beads_stats", "process_samples_table")
                          /\ Before(RunProgram(h), "process_samples_table", "add_samples_stats")
BeadsFigures(id, mefChannels) == <<"density_hist_" \o id, "clustering_" \o id>>      \* + populations_<ch>_<id>, std_crv_<ch>_<id> per channel
SampleFigure(id) == id
=============================================================================
