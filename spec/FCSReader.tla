---------------------------- MODULE FCSReader ----------------------------
(* The reader as a state machine: one named action per block of                  *)
(* FlowCal.io.FCSFile.__init__ / read_fcs_*_segment, driven by the step          *)
(* operators of FCSBytes.  The environment first writes a file and optionally    *)
(* damages it.  Used for MC (invariants below, action coverage) - the GEN runs   *)
(* use the composed function ReadFile, which Refines asserts to be the same.     *)
EXTENDS FCSBytes, TLC
CONSTANTS Lays              \* set of layouts to write
VARIABLES lay, flt, st

vars == <<lay, flt, st>>
Idle == [pc |-> "Idle"]

Init == lay \in Lays /\ flt = NoFault /\ st = Idle

TruncPoints(l) == LET n == Len(Write(l, NoFault)) IN {0, 9, 10, 57, 58, n \div 2, n - 2, n - 1} \cap 0..(n - 1)
Damage == /\ st = Idle /\ flt = NoFault
          /\ \/ \E a \in TruncPoints(lay) : flt' = [k |-> "trunc", field |-> "-", how |-> "-", at |-> a]
             \/ \E fd \in {"tot", "par", "pnb1", "h_tb", "h_te", "h_db", "h_de", "t_db", "t_de"}, h \in {"m1", "p1", "half", "big"} :
                   flt' = [k |-> "field", field |-> fd, how |-> h, at |-> 0]
          /\ UNCHANGED <<lay, st>>
Open == st = Idle /\ st' = S0(Write(lay, flt), RBits(lay)) /\ UNCHANGED <<lay, flt>>

At(pc) == st.pc = pc /\ st' = Step(st) /\ UNCHANGED <<lay, flt>>
Header == At("Header")      Text == At("Text")          SText == At("SText")
Mode == At("Mode")          Datatype == At("Datatype")  Par == At("Par")
Align == At("Align")        Byteord == At("Byteord")    NextData == At("NextData")
Analysis == At("Analysis")  Ranges == At("Ranges")      Locate == At("Locate")
Size == At("Size")          Map == At("Map")            DecodeData == At("Decode")
Mask == At("Mask")

Next == Damage \/ Open \/ Header \/ Text \/ SText \/ Mode \/ Datatype \/ Par \/ Align \/ Byteord
        \/ NextData \/ Analysis \/ Ranges \/ Locate \/ Size \/ Map \/ DecodeData \/ Mask
Spec == Init /\ [][Next]_vars /\ WF_vars(Next)

Order == <<"Idle", "Header", "Text", "SText", "Mode", "Datatype", "Par", "Align", "Byteord", "NextData",
           "Analysis", "Ranges", "Locate", "Size", "Map", "Decode", "Mask", "Done">>
Rank(pc) == CHOOSE i \in 1..Len(Order) : Order[i] = pc

(* the composed function used by the GEN runs is exactly this machine *)
Refines == (st # Idle /\ Terminal(st)) => OutcomeOf(st) = ReadFile(st.f, st.rbits)
(* data are only ever produced after the size check and the map bound passed *)
NoDataBeforeChecks == (st # Idle /\ st.data # <<>>) => st.pc \in {"Mask", "Done"}
(* control only moves forward, or to Refused *)
Forward == [][st' # st => (st'.pc = "Refused" \/ Rank(st'.pc) > Rank(st.pc))]_vars
(* an undamaged supported file is decoded completely *)
Completes == <>(st # Idle /\ Terminal(st))
IntactDecodes == (st # Idle /\ st.pc = "Done" /\ flt = NoFault) => st.data = MaskedEvents(lay)
=============================================================================
