---------------------------- MODULE RangeLaw ----------------------------
(* Mechanism model for C07: a sample's range limits travel with the data.        *)
(* Two columns of integer events in 0..R-1; a conversion applies a strictly      *)
(* increasing map to the events of the chosen columns AND to their range limits; *)
(* the default high/low gate keeps events strictly inside the range.             *)
(* Values live on a grid four times finer than the map's output so that a        *)
(* last-place disagreement between the two evaluation paths of the code (events  *)
(* as an array, limits as scalars) can be modelled as +-1 (Skew # 0).            *)
(* With Skew = 0 TLC proves RangeFollows and GateCommutes; with Skew # 0 it      *)
(* exhibits the counterexample that the conformance check then looks for in the  *)
(* real code (known deviation #10 of DESIGN section 7).                          *)
EXTENDS Integers, Sequences, FiniteSets
CONSTANTS R, Skews            \* Skews: set of possible limit errors, {0} for the intended design
VARIABLES ev, rng, hist
vars == <<ev, rng, hist>>
Cols == 1..2
SkewIntended == {0}
SkewLastPlace == {-1, 0, 1}
Events == [Cols -> 0..(R - 1)]

F(k, x) == 4 * ((k + 1) * x + k)            \* family of strictly increasing maps, on the fine grid
Mask(e, r) == {i \in DOMAIN e : \A c \in Cols : e[i][c] > r[c][1] /\ e[i][c] < r[c][2]}

Init == /\ ev \in [1..3 -> Events]
        /\ \E i \in 1..3 : ev[i] = [c \in Cols |-> 0]           \* somebody sits at the lower limit
        /\ \E i \in 1..3 : \E c \in Cols : ev[i][c] = R - 1      \* and somebody at an upper limit
        /\ rng = [c \in Cols |-> <<0, R - 1>>]
        /\ hist = <<>>

Convert(S, k) ==
  /\ Len(hist) < 2
  /\ \E s1 \in Skews, s2 \in Skews :
        /\ ev' = [i \in DOMAIN ev |-> [c \in Cols |-> IF c \in S THEN F(k, ev[i][c]) ELSE ev[i][c]]]
        /\ rng' = [c \in Cols |-> IF c \in S THEN <<F(k, rng[c][1]) + s1, F(k, rng[c][2]) + s2>> ELSE rng[c]]
  /\ hist' = Append(hist, <<S, k>>)

Next == \E S \in (SUBSET Cols) \ {{}}, k \in 1..2 : Convert(S, k)
Spec == Init /\ [][Next]_vars

(* each limit is exactly the value an event sitting at the original limit now has *)
RangeFollows ==
  \A c \in Cols :
     LET fold(x) == IF hist = <<>> THEN x
                    ELSE LET a == IF c \in hist[1][1] THEN F(hist[1][2], x) ELSE x
                         IN IF Len(hist) = 1 THEN a ELSE IF c \in hist[2][1] THEN F(hist[2][2], a) ELSE a
     IN rng[c] = <<fold(0), fold(R - 1)>>
(* removing saturated events before or after a conversion keeps the same events *)
GateCommutes == [][Mask(ev, rng) = Mask(ev', rng')]_vars
=============================================================================
