---------------------------- MODULE MC_FCSText ----------------------------
(* Round trip / injectivity of the escaping rule: Decode(Encode(p)) = p for all  *)
(* pair lists in the bound, for primary, supplemental-with and -without leading  *)
(* delimiter.                                                                     *)
EXTENDS FCSText
CONSTANTS TokLen, NPairs, NSym
VARIABLES scn

D == 0
Toks == {t \in UNION {[1..n -> 0..(NSym - 1)] : n \in 1..TokLen} : t[1] # D}
Pairs == Toks \X Toks
PairLists == UNION {[1..n -> Pairs] : n \in 0..NPairs}

Init == scn \in PairLists
Next == UNCHANGED scn

RoundTripPrimary == Decode(Encode(scn, D), D, FALSE) = Ok(FlatToks(scn), FALSE, 0)
RoundTripSuppLead == Decode(Encode(scn, D), D, TRUE) = Ok(FlatToks(scn), FALSE, 0)
RoundTripSuppBare == Decode(EncodeSupp(scn, D), D, TRUE) = Ok(FlatToks(scn), FALSE, 0)
TrailingGarbageIgnored ==
  \A g \in {<<1>>, <<1, 1>>} : Decode(Encode(scn, D) \o g, D, FALSE) = Ok(FlatToks(scn), FALSE, 0)
=============================================================================
