---------------------------- MODULE MC_ExcelUI ----------------------------
EXTENDS ExcelUI
R3(file, frac, u1, u2, u3, beads) == [file |-> file, frac |-> frac, units |-> <<u1, u2, u3>>, beads |-> beads]
R(file, frac, u1, u2, beads) == R3(file, frac, u1, u2, "empty", beads)
Healthy == {R("ok-int", "in", "rfi", "channel", "nomef"), R3("ok-int", "in", "rfi", "mef", "rfi", "ok"), R3("ok-float", "in", "empty", "empty", "au", "ok")} \cup {R(f, "in", u[1], u[2], "ok") : f \in {"ok-int", "ok-float"},
              u \in {<<"empty", "empty">>, <<"channel", "rfi">>, <<"au", "mef">>, <<"mef", "mef">>, <<"rfi", "empty">>, <<"mef", "empty">>}}
Faulty == { R("missing", "in", "rfi", "mef", "ok"), R("short", "in", "rfi", "mef", "ok"),
            R("ok-int", "above", "rfi", "mef", "ok"), R("ok-int", "below", "rfi", "mef", "ok"),
            R("ok-int", "in", "unknown", "mef", "ok"), R("ok-int", "in", "rfi", "unknown", "ok"),
            R("ok-int", "in", "rfi", "mef", "failed"), R("ok-int", "in", "rfi", "mef", "nocurve"),
            R("ok-int", "in", "rfi", "mef", "other-inst"), R("ok-int", "in", "rfi", "mef", "other-amp"),
            R("ok-int", "in", "rfi", "mef", "other-volt"), R("ok-int", "in", "rfi", "mef", "nomef"), R("ok-float", "in", "mef", "empty", "nomef"),
            R("short", "in", "unknown", "mef", "failed"), R("ok-float", "in", "unknown", "mef", "failed"),
            R("ok-int", "above", "rfi", "mef", "failed"), R("ok-float", "below", "mef", "unknown", "ok"),
            R("ok-int", "in", "rfi", "empty", "failed"),
            R3("ok-int", "in", "rfi", "empty", "mef", "ok"), R3("ok-float", "in", "mef", "mef", "mef", "ok"),
            R3("ok-int", "in", "empty", "empty", "mef", "other-inst") }
AllRows == Healthy \cup Faulty
SmallRows == { R("ok-int", "in", "channel", "rfi", "ok"), R("ok-float", "in", "mef", "empty", "ok"), R("missing", "in", "rfi", "mef", "ok"),
               R("ok-int", "above", "rfi", "mef", "ok"), R("ok-int", "in", "rfi", "mef", "failed"), R("ok-int", "in", "unknown", "mef", "ok") }
=============================================================================
