---------------------------- MODULE MC_DensityGate ----------------------------
(* Theorems of the density-gate specification on all small instances:           *)
(* the implementation's algorithm (prefix of any density-compatible order)      *)
(* satisfies the documented predicate; the kept set grows with the target;      *)
(* target = all in-grid events keeps every in-grid event; target 0 keeps none.  *)
EXTENDS DensityGate, TLC, SequencesExt
CONSTANTS KX, KY, NEv
CONSTANTS RankMax
VARIABLES ev, ranks, order, stage
vars == <<ev, ranks, order, stage>>
Codes(k) == (-1)..(2 * k + 1)
Perms(S) == {p \in [1..Cardinality(S) -> S] : \A i, j \in 1..Cardinality(S) : i # j => p[i] # p[j]}

(* the instance is assembled by environment actions so that TLC's workers share the enumeration *)
Init == ev = <<>> /\ ranks = <<>> /\ order = <<>> /\ stage = "events"
AddEvent == /\ stage = "events" /\ Len(ev) < NEv
            /\ \E c \in Codes(KX) \X Codes(KY) : ev' = Append(ev, c)
            /\ stage' = (IF Len(ev') = NEv THEN "ranks" ELSE "events") /\ UNCHANGED <<ranks, order>>
PickRanks == /\ stage = "ranks" /\ \E r \in [1..KX -> [1..KY -> 0..RankMax]] : ranks' = r
             /\ stage' = "order" /\ UNCHANGED <<ev, order>>
PickOrder == /\ stage = "order" /\ \E o \in Perms(Bins(KX, KY)) : Compatible(o, ranks, KX, KY) /\ order' = o
             /\ stage' = "done" /\ UNCHANGED <<ev, ranks>>
Next == AddEvent \/ PickRanks \/ PickOrder
Spec == Init /\ [][Next]_vars
Ready == stage = "done"

N == NIn(ev, KX, KY)
AlgorithmSatisfiesPredicate == Ready =>
  \A n \in 0..N : ValidGate(ev, ranks, GateBy(ev, order, n, KX, KY), n, KX, KY)
MonotoneInTarget == Ready =>
  \A n \in 0..N : \A n2 \in n..N : GateBy(ev, order, n, KX, KY) \subseteq GateBy(ev, order, n2, KX, KY)
AllAtOne == Ready =>
  \A i \in 1..NEv : InGrid(ev[i], KX, KY) => EventMask(ev, GateBy(ev, order, N, KX, KY), KX, KY)[i]
NoneOutside == Ready =>
  \A n \in 0..N : \A i \in 1..NEv : ~InGrid(ev[i], KX, KY) => ~EventMask(ev, GateBy(ev, order, n, KX, KY), KX, KY)[i]
WholeBins == Ready =>
  \A n \in 0..N : \A i, j \in 1..NEv :
     (BinOfEvent(ev[i], KX, KY) = BinOfEvent(ev[j], KX, KY)) =>
        (EventMask(ev, GateBy(ev, order, n, KX, KY), KX, KY)[i] = EventMask(ev, GateBy(ev, order, n, KX, KY), KX, KY)[j])
=============================================================================
