---------------------------- MODULE MC_FCSReader ----------------------------
EXTENDS FCSReader
L(ver, dt, mode, bo, widths, rk, N, off, endc, pad, stext) ==
  [ver |-> ver, dt |-> dt, mode |-> mode, bo |-> bo, widths |-> widths, rk |-> rk, N |-> N,
   off |-> off, endc |-> endc, pad |-> pad, ev |-> "asc", stext |-> stext, an |-> IF pad = 3 THEN "header" ELSE "none", nx |-> IF N = 1 THEN 1024 ELSE 0,
   order |-> IF bo = "12" \/ widths = <<8, 24>> THEN "dta" ELSE "tda",
   onum |-> IF bo = "4321" THEN "right" ELSE IF dt = "F" THEN "left" ELSE "zero",
   knum |-> IF bo = "21" THEN "blank" ELSE "zero"]
MCLays == { L("3.0", "I", "L", "1234", <<16, 16>>, <<"pow", "np">>, 2, "header", "last", 0, FALSE),
            L("3.1", "I", "L", "4321", <<8, 24>>, <<"pow", "pow">>, 2, "text", "onepast", 3, TRUE),
            L("2.0", "I", "L", "21", <<8>>, <<"powm3">>, 1, "header", "onepast", 0, FALSE),
            L("3.0", "F", "L", "12", <<32>>, <<"pow">>, 1, "text", "last", 0, FALSE),
            L("2.0", "D", "L", "21", <<64>>, <<"pow">>, 1, "header", "last", 0, FALSE),
            L("3.1", "I", "H", "1234", <<16>>, <<"pow">>, 1, "header", "last", 0, FALSE),
            L("3.1", "A", "L", "1234", <<16>>, <<"pow">>, 1, "header", "last", 0, FALSE),
            L("3.0", "I", "L", "3412", <<16>>, <<"pow">>, 1, "header", "last", 0, FALSE),
            L("3.0", "I", "L", "1234", <<12>>, <<"pow">>, 1, "header", "last", 0, FALSE) }
=============================================================================
