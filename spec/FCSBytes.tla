---------------------------- MODULE FCSBytes ----------------------------
(* An FCS file is a sequence of bytes (0..255).  This module contains            *)
(*   - a WRITER: layout + events -> bytes   (Write)                               *)
(*   - a fault model on top of it           (truncation, single-field corruption) *)
(*   - a READER over bytes, one step operator per block of FCSFile.__init__ /    *)
(*     read_fcs_header_segment / read_fcs_text_segment / read_fcs_data_segment    *)
(*     (ReadFile iterates them; FCSReader.tla runs them as named actions)         *)
(* Event values are limb sequences (little-endian bytes): TLC integers are        *)
(* 32-bit.  Float cells are kept as their IEEE bytes, most significant first.     *)
EXTENDS Integers, Sequences, FiniteSets, FCSText, FCSAscii

SP == 32
SLASH == 47

RECURSIVE DigitsOf(_)
DigitsOf(n) == IF n < 10 THEN <<48 + n>> ELSE DigitsOf(n \div 10) \o <<48 + (n % 10)>>
ZPad(n, w) == LET d == DigitsOf(n) IN IF Len(d) >= w THEN d ELSE [i \in 1..(w - Len(d)) |-> 48] \o d
RJust(s, w) == IF Len(s) >= w THEN s ELSE [i \in 1..(w - Len(s)) |-> SP] \o s
Spaces(n) == [i \in 1..n |-> SP]
LJust(s, w) == IF Len(s) >= w THEN s ELSE s \o [i \in 1..(w - Len(s)) |-> SP]
Zeros(n) == [i \in 1..n |-> 0]
Rev(s) == [i \in 1..Len(s) |-> s[Len(s) + 1 - i]]
RECURSIVE Concat(_)
Concat(ss) == IF ss = <<>> THEN <<>> ELSE Head(ss) \o Concat(Tail(ss))
Pow2(k) == 2 ^ k
Min(a, b) == IF a < b THEN a ELSE b
Max(a, b) == IF a > b THEN a ELSE b

----------------------------------------------------------------------------
(* layouts *)
KeyP(n, suffix) == <<36, 80>> \o DigitsOf(n) \o <<suffix>>          \* "$P<n><suffix>"
VerStr(v) == CASE v = "2.0" -> A_FCS20 [] v = "3.0" -> A_FCS30 [] v = "3.1" -> A_FCS31 [] OTHER -> <<88>>
BoStr(b) == CASE b = "4321" -> A_BO4321 [] b = "21" -> A_BO21 [] b = "1234" -> A_BO1234
              [] b = "12" -> A_BO12
              [] b = "1324" -> <<49, 44, 51, 44, 50, 44, 52>> [] b = "4231" -> <<52, 44, 50, 44, 51, 44, 49>>      \* ends look right, middle swapped
              [] b = "2143" -> <<50, 44, 49, 44, 52, 44, 51>> [] b = "4441" -> <<52, 44, 52, 44, 52, 44, 49>>
              [] OTHER -> A_BO3412
BoBig(b) == b \in {"4321", "21"}
OneChar(c) == CASE c = "L" -> A_L [] c = "H" -> A_H [] c = "I" -> A_I [] c = "F" -> A_F
                [] c = "D" -> A_D [] OTHER -> A_A
IsV3(v) == v \in {"3.0", "3.1"}

(* bits kept by the range mask, and the decimal text of $PnR, per range kind *)
RBitsOf(w, kind) == CASE kind = "pow" -> w [] kind = "powm3" -> Max(w - 3, 1)
                      [] kind = "np" -> w - 1 [] OTHER -> w                   \* "odd"
RText(w0, kind) == LET w == Min(w0, 64) IN
                   CASE kind = "pow" -> PowDec[w] [] kind = "powm3" -> PowDec[Max(w - 3, 1)]
                     [] kind = "np" -> NPDec[w - 1] [] OTHER -> OddDec[w]
RBits(lay) == [p \in 1..Len(lay.widths) |-> RBitsOf(lay.widths[p], lay.rk[p])]

(* abstract event values: limb j (0-based, little-endian) of cell number c (0-based, row-major) *)
PatLimb(ev, c, j, nl) ==
  CASE ev = "asc"  -> (17 + 37 * (c * 8 + j)) % 256
    [] ev = "zero" -> 0
    [] ev = "ones" -> 255
    [] ev = "hi"   -> IF j = nl - 1 THEN 128 ELSE 0
    [] ev = "lo"   -> IF j = 0 THEN 1 ELSE 0
    [] OTHER       -> (201 + 91 * (c * 8 + j)) % 256
NLimbs(lay, p) == IF lay.widths[p] % 8 = 0 THEN lay.widths[p] \div 8 ELSE (lay.widths[p] \div 8) + 1
Cell(lay, r, p) == LET D == Len(lay.widths)  nl == NLimbs(lay, p)
                   IN [j \in 1..nl |-> PatLimb(lay.ev, (r - 1) * D + (p - 1), j - 1, nl)]
Events(lay) == [r \in 1..lay.N |-> [p \in 1..Len(lay.widths) |-> Cell(lay, r, p)]]

(* mask to the low `bits` bits *)
MaskLimbs(limbs, bits) ==
  [j \in 1..Len(limbs) |-> LET k == Min(8, Max(0, bits - 8 * (j - 1))) IN limbs[j] % Pow2(k)]
MaskedEvents(lay) ==
  IF lay.dt # "I" THEN [r \in 1..lay.N |-> [p \in 1..Len(lay.widths) |-> Rev(Cell(lay, r, p))]]
  ELSE [r \in 1..lay.N |-> [p \in 1..Len(lay.widths) |-> MaskLimbs(Cell(lay, r, p), RBits(lay)[p])]]

DataBytes(lay) ==
  LET D == Len(lay.widths)
      cellbytes(r, p) == IF BoBig(lay.bo) THEN Rev(Cell(lay, r, p)) ELSE Cell(lay, r, p)
  IN Concat([c \in 1..(lay.N * D) |-> cellbytes(((c - 1) \div D) + 1, ((c - 1) % D) + 1)])

----------------------------------------------------------------------------
(* field values, possibly corrupted: flt = [k, field, how] *)
(* kw1 / kw3 / kw5: (for the TEXT begin offset of a 3.x file) moved forward exactly onto the delimiter that precedes the   *)
(* 2nd / 4th / 6th keyword - the offset keywords are 14, 12, 11, 9, 10 characters long and their values 8 - so that what   *)
(* follows is a well-formed segment without its first keywords                                                          *)
Corrupt(v, how) == CASE how = "m1" -> v - 1 [] how = "p1" -> v + 1 [] how = "half" -> v \div 2
                     [] how = "big" -> 2 * v + 3
                     [] how = "kw1" -> v + 24 [] how = "kw3" -> v + 24 + 22 + 21 [] how = "kw5" -> v + 24 + 22 + 21 + 19 + 20
                     [] OTHER -> v
FV(flt, field, v) == IF flt.k = "field" /\ flt.field = field THEN Corrupt(v, flt.how) ELSE v

(* numeric keyword values as written: as they are, or padded with blanks on both sides (int() and float() accept both) *)
NumText(lay, t) == IF lay.knum = "blank" THEN <<SP, SP>> \o t \o <<SP>> ELSE t
ParPairs(lay, flt) ==
  Concat([p \in 1..Len(lay.widths) |->
     << <<KeyP(p, 66), NumText(lay, ZPad(FV(flt, IF p = 1 THEN "pnb1" ELSE "pnb2", lay.widths[p]), 4))>>,
        <<KeyP(p, 82), NumText(lay, RText(lay.widths[p], lay.rk[p]))>>,
        <<KeyP(p, 78), <<97>> \o DigitsOf(p)>>,
        <<KeyP(p, 69), A_LIN>> >>])

(* offsets in TEXT are fixed-width fields: zero-padded, or blank-padded on either side (all three occur in real files) *)
OffText(lay, n) == CASE lay.onum = "right" -> RJust(DigitsOf(n), 8) [] lay.onum = "left" -> LJust(DigitsOf(n), 8) [] OTHER -> ZPad(n, 8)
TextPairs(lay, flt, o) ==
  (IF IsV3(lay.ver)
   THEN << <<A_BEGINANALYSIS, OffText(lay, IF lay.an = "text" THEN o.ab ELSE 0)>>, <<A_ENDANALYSIS, OffText(lay, IF lay.an = "text" THEN o.ae ELSE 0)>>,
           <<A_BEGINSTEXT, OffText(lay, FV(flt, "t_sb", o.sb))>>, <<A_ENDSTEXT, OffText(lay, FV(flt, "t_se", o.se))>>,
           <<A_BEGINDATA, OffText(lay, FV(flt, "t_db", o.db))>>, <<A_ENDDATA, OffText(lay, FV(flt, "t_de", o.de))>> >>
   ELSE <<>>)
  \o << <<A_BYTEORD, BoStr(lay.bo)>>, <<A_DATATYPE, OneChar(lay.dt)>>, <<A_MODE, OneChar(lay.mode)>>,
        <<A_NEXTDATA, DigitsOf(lay.nx)>>, <<A_PAR, ZPad(FV(flt, "par", Len(lay.widths)), 4)>>,
        <<A_TOT, ZPad(FV(flt, "tot", lay.N), 4)>> >>
  \o ParPairs(lay, flt)

STextPairs == << <<<<83, 75, 49>>, <<115, 47, 118>>>> >>        \* SK1 -> "s/v" (value holds the delimiter)
APairs == << <<<<65, 75, 49>>, <<97, 118, 49>>>>, <<<<65, 75, 50>>, <<97, 47, 50>>>> >>     \* AK1 -> av1, AK2 -> "a/2"
HasAnalysis(lay) == lay.an \in {"header", "text"} /\ (lay.an = "text" => IsV3(lay.ver))

ZeroOff == [sb |-> 0, se |-> 0, db |-> 0, de |-> 0, ab |-> 0, ae |-> 0]
NoFault == [k |-> "none", field |-> "-", how |-> "-", at |-> 0]

(* segment order after the HEADER: "tda" TEXT [sTEXT] DATA [ANALYSIS] (what every writer we know does), or   *)
(* "dta" DATA TEXT [sTEXT] [ANALYSIS] (legal: segments are located by offsets only)                              *)
OffTDA(lay, tlen, st, nb, at) ==
  LET tb == 58 + lay.pad
      te == tb + tlen - 1
      sb == IF st = <<>> THEN 0 ELSE te + 1
      se == IF st = <<>> THEN 0 ELSE te + Len(st)
      db == te + 1 + Len(st) + lay.pad
      de == IF lay.endc = "last" THEN db + nb - 1 ELSE db + nb
      ab == IF at = <<>> THEN 0 ELSE db + nb + lay.pad
      ae == IF at = <<>> THEN 0 ELSE ab + Len(at) - 1
  IN [tb |-> tb, te |-> te, sb |-> sb, se |-> se, db |-> db, de |-> de, st |-> st, ab |-> ab, ae |-> ae, at |-> at]
OffDTA(lay, tlen, st, nb, at) ==
  LET db == 58 + lay.pad
      de == IF lay.endc = "last" THEN db + nb - 1 ELSE db + nb
      tb == db + nb + lay.pad
      te == tb + tlen - 1
      sb == IF st = <<>> THEN 0 ELSE te + 1
      se == IF st = <<>> THEN 0 ELSE te + Len(st)
      ab == IF at = <<>> THEN 0 ELSE te + 1 + Len(st) + lay.pad
      ae == IF at = <<>> THEN 0 ELSE ab + Len(at) - 1
  IN [tb |-> tb, te |-> te, sb |-> sb, se |-> se, db |-> db, de |-> de, st |-> st, ab |-> ab, ae |-> ae, at |-> at]
OffSTA(lay, tlen, st, nb, at) ==        \* supplemental TEXT physically BEFORE the primary TEXT
  LET sb == IF st = <<>> THEN 0 ELSE 58 + lay.pad
      se == IF st = <<>> THEN 0 ELSE sb + Len(st) - 1
      tb == 58 + lay.pad + Len(st) + lay.pad
      te == tb + tlen - 1
      db == te + 1 + lay.pad
      de == IF lay.endc = "last" THEN db + nb - 1 ELSE db + nb
      ab == IF at = <<>> THEN 0 ELSE db + nb + lay.pad
      ae == IF at = <<>> THEN 0 ELSE ab + Len(at) - 1
  IN [tb |-> tb, te |-> te, sb |-> sb, se |-> se, db |-> db, de |-> de, st |-> st, ab |-> ab, ae |-> ae, at |-> at]
Offsets(lay) ==
  LET tlen == Len(Encode(TextPairs(lay, NoFault, ZeroOff), SLASH))
      st == IF lay.stext /\ IsV3(lay.ver) THEN EncodeSupp(STextPairs, SLASH) ELSE <<>>
      nb == Len(DataBytes(lay))
      at == IF HasAnalysis(lay) THEN Encode(APairs, SLASH) ELSE <<>>
  IN IF lay.order = "dta" THEN OffDTA(lay, tlen, st, nb, at)
     ELSE IF lay.order = "sta" THEN OffSTA(lay, tlen, st, nb, at) ELSE OffTDA(lay, tlen, st, nb, at)

Write(lay, flt) ==
  LET o == Offsets(lay)
      hdb == IF lay.off = "header" \/ ~IsV3(lay.ver) THEN o.db ELSE 0
      hde == IF lay.off = "header" \/ ~IsV3(lay.ver) THEN o.de ELSE 0
      f == (VerStr(lay.ver) \o Spaces(4))
           \o RJust(DigitsOf(FV(flt, "h_tb", o.tb)), 8) \o RJust(DigitsOf(FV(flt, "h_te", o.te)), 8)
           \o RJust(DigitsOf(FV(flt, "h_db", hdb)), 8) \o RJust(DigitsOf(FV(flt, "h_de", hde)), 8)
           \o (IF lay.an = "header" THEN RJust(DigitsOf(o.ab), 8) \o RJust(DigitsOf(o.ae), 8)
               ELSE IF lay.ver = "2.0" THEN Spaces(16) ELSE RJust(<<48>>, 8) \o RJust(<<48>>, 8))
           \o (IF lay.order = "dta"
               THEN Zeros(lay.pad) \o DataBytes(lay) \o Spaces(lay.pad) \o Encode(TextPairs(lay, flt, o), SLASH) \o o.st
               ELSE IF lay.order = "sta"
               THEN Spaces(lay.pad) \o o.st \o Spaces(lay.pad) \o Encode(TextPairs(lay, flt, o), SLASH) \o Zeros(lay.pad) \o DataBytes(lay)
               ELSE Spaces(lay.pad) \o Encode(TextPairs(lay, flt, o), SLASH) \o o.st \o Zeros(lay.pad) \o DataBytes(lay))
           \o (IF o.at = <<>> THEN <<>> ELSE Zeros(lay.pad) \o o.at)
  IN IF flt.k = "trunc" THEN SubSeq(f, 1, flt.at)
     ELSE IF flt.k = "empty" THEN <<>>
     ELSE f

----------------------------------------------------------------------------
(* READER *)
IsWs(c) == c \in {9, 10, 11, 12, 13, 32}
RECURSIVE LStrip(_)
LStrip(s) == IF s # <<>> /\ IsWs(s[1]) THEN LStrip(Tail(s)) ELSE s
RStrip(s) == Rev(LStrip(Rev(s)))
Strip(s) == RStrip(LStrip(s))
RECURSIVE DecVal(_, _)
DecVal(s, acc) == IF s = <<>> THEN acc ELSE DecVal(Tail(s), acc * 10 + (Head(s) - 48))
(* Python int(): the generator and the fault model only produce digits and blanks *)
PyInt(s0) == LET s == Strip(s0) IN
             IF s = <<>> \/ (\E i \in 1..Len(s) : s[i] < 48 \/ s[i] > 57) \/ Len(s) > 9
             THEN [ok |-> FALSE, v |-> 0] ELSE [ok |-> TRUE, v |-> DecVal(s, 0)]

(* file.read(n) after seek(pos): clipped at EOF; n = -1 reads to EOF; n < -1 raises *)
ReadAt(f, pos, n) == IF pos >= Len(f) THEN <<>>
                     ELSE IF n < 0 THEN SubSeq(f, pos + 1, Len(f))
                     ELSE SubSeq(f, pos + 1, Min(Len(f), pos + n))

Has(dict, key) == \E p \in dict : p[1] = key
Get(dict, key) == (CHOOSE p \in dict : p[1] = key)[2]
GetInt(dict, key) == IF Has(dict, key) THEN PyInt(Get(dict, key)) ELSE [ok |-> FALSE, v |-> 0]

(* reader state: one record shape *)
S0(f, rbits) ==
  [pc |-> "Header", why |-> "-", f |-> f, rbits |-> rbits, v3 |-> FALSE,
   tb |-> 0, te |-> 0, db |-> 0, de |-> 0, ab |-> 0, ae |-> 0, delim |-> 0,
   text |-> {}, D |-> 0, widths |-> <<>>, dt |-> "-", big |-> FALSE, N |-> 0,
   begin |-> 0, end |-> 0, data |-> <<>>, warn |-> FALSE, an |-> {}, anwarn |-> FALSE, nxwarn |-> FALSE]
Refuse(s, why) == [s EXCEPT !.pc = "Refused", !.why = why]

StepHeader(s) ==
  LET f == s.f
      ver == RStrip(ReadAt(f, 0, 10))
      i1 == PyInt(ReadAt(f, 10, 8))  i2 == PyInt(ReadAt(f, 18, 8))
      i3 == PyInt(ReadAt(f, 26, 8))  i4 == PyInt(ReadAt(f, 34, 8))
      a1 == ReadAt(f, 42, 8)         a2 == ReadAt(f, 50, 8)
      j1 == IF a1 = Spaces(8) THEN [ok |-> TRUE, v |-> 0] ELSE PyInt(a1)
      j2 == IF a2 = Spaces(8) THEN [ok |-> TRUE, v |-> 0] ELSE PyInt(a2)
  IN IF ~(i1.ok /\ i2.ok /\ i3.ok /\ i4.ok /\ j1.ok /\ j2.ok) THEN Refuse(s, "header")
     ELSE [s EXCEPT !.pc = "Text", !.v3 = ver \in {A_FCS30, A_FCS31},
                    !.tb = i1.v, !.te = i2.v, !.db = i3.v, !.de = i4.v, !.ab = j1.v, !.ae = j2.v]

(* read_fcs_text_segment(buf, begin, end, delim, supplemental) -> [ok, dict, delim] *)
Segment(f, begin, end, delim0, supp) ==
  LET n == (end + 1) - begin
      d == IF delim0 >= 0 THEN delim0 ELSE (IF ReadAt(f, begin, 1) = <<>> THEN -1 ELSE ReadAt(f, begin, 1)[1])
      raw == ReadAt(f, begin, n)
  IN IF n < -1 THEN [ok |-> FALSE, dict |-> {}, delim |-> d, warn |-> FALSE]
     \* a segment extending beyond the end of the file is refused
     ELSE IF Len(raw) < n THEN [ok |-> FALSE, dict |-> {}, delim |-> d, warn |-> FALSE]
     ELSE IF raw = <<>> THEN [ok |-> TRUE, dict |-> {}, delim |-> -1, warn |-> FALSE]
     ELSE LET r == Decode(raw, d, supp) IN
          IF r.k = "err" THEN [ok |-> FALSE, dict |-> {}, delim |-> d, warn |-> FALSE]
          ELSE [ok |-> TRUE, dict |-> DictOf(r.toks), delim |-> d, warn |-> r.warn]

StepText(s) ==
  LET r == Segment(s.f, s.tb, s.te, -2, FALSE) IN
  IF ~r.ok THEN Refuse(s, "text")
  ELSE [s EXCEPT !.pc = "SText", !.text = r.dict, !.delim = r.delim, !.warn = r.warn]

StepSText(s) ==
  IF ~s.v3 THEN [s EXCEPT !.pc = "Mode"]
  ELSE LET b == GetInt(s.text, A_BEGINSTEXT)  e == GetInt(s.text, A_ENDSTEXT) IN
       IF ~b.ok \/ ~e.ok THEN Refuse(s, "stext-keywords")
       ELSE IF b.v = 0 \/ e.v = 0 THEN [s EXCEPT !.pc = "Mode"]
       ELSE LET r == Segment(s.f, b.v, e.v, s.delim, TRUE) IN
            IF ~r.ok \/ s.delim < 0 THEN Refuse(s, "stext")
            ELSE [s EXCEPT !.pc = "Mode", !.text = Merge(s.text, r.dict), !.warn = s.warn \/ r.warn]

StepMode(s) ==
  IF ~Has(s.text, A_MODE) THEN Refuse(s, "mode-missing")
  ELSE IF Get(s.text, A_MODE) # A_L THEN Refuse(s, "mode-unsupported")
  ELSE [s EXCEPT !.pc = "Datatype"]

StepDatatype(s) ==
  IF ~Has(s.text, A_DATATYPE) THEN Refuse(s, "datatype-missing")
  ELSE LET d == Get(s.text, A_DATATYPE) IN
       IF d = A_I THEN [s EXCEPT !.pc = "Par", !.dt = "I"]
       ELSE IF d = A_F THEN [s EXCEPT !.pc = "Par", !.dt = "F"]
       ELSE IF d = A_D THEN [s EXCEPT !.pc = "Par", !.dt = "D"]
       ELSE Refuse(s, "datatype-unsupported")

StepPar(s) ==
  LET d == GetInt(s.text, A_PAR) IN
  IF ~d.ok THEN Refuse(s, "par")
  ELSE LET ws == [p \in 1..d.v |-> GetInt(s.text, KeyP(p, 66))] IN
       IF \E p \in 1..d.v : ~ws[p].ok THEN Refuse(s, "pnb")
       ELSE [s EXCEPT !.pc = "Align", !.D = d.v, !.widths = [p \in 1..d.v |-> ws[p].v]]

StepAlign(s) ==
  IF s.dt = "I" /\ \E p \in 1..s.D : s.widths[p] % 8 # 0 THEN Refuse(s, "not-byte-aligned")
  ELSE [s EXCEPT !.pc = "Byteord"]

StepByteord(s) ==
  IF ~Has(s.text, A_BYTEORD) THEN Refuse(s, "byteord-missing")
  ELSE LET b == Get(s.text, A_BYTEORD) IN
       IF b \notin {A_BO4321, A_BO21, A_BO1234, A_BO12} THEN Refuse(s, "byteord-unsupported")
       ELSE [s EXCEPT !.pc = "NextData", !.big = b \in {A_BO4321, A_BO21}]

(* a non-zero $NEXTDATA (further data sets in the file) is only warned about: the first data set is read *)
StepNextData(s) ==
  LET n == GetInt(s.text, A_NEXTDATA) IN
  IF ~n.ok THEN Refuse(s, "nextdata") ELSE [s EXCEPT !.pc = "Analysis", !.nxwarn = (n.v # 0)]

(* ANALYSIS parse errors are swallowed; only the TEXT keyword lookups can refuse *)
ReadAnalysis(s, b, e) ==            \* try: read_fcs_text_segment(...) except Exception: warn, {}
  LET r == Segment(s.f, b, e, s.delim, TRUE) IN
  IF r.ok THEN [s EXCEPT !.pc = "Ranges", !.an = r.dict] ELSE [s EXCEPT !.pc = "Ranges", !.an = {}, !.anwarn = TRUE]
StepAnalysis(s) ==
  IF s.ab # 0 /\ s.ae # 0 THEN ReadAnalysis(s, s.ab, s.ae)
  ELSE IF s.v3 THEN
       LET b == GetInt(s.text, A_BEGINANALYSIS)  e == GetInt(s.text, A_ENDANALYSIS) IN
       IF ~b.ok \/ ~e.ok THEN Refuse(s, "analysis-keywords")
       ELSE IF b.v # 0 /\ e.v # 0 THEN ReadAnalysis(s, b.v, e.v) ELSE [s EXCEPT !.pc = "Ranges"]
  ELSE [s EXCEPT !.pc = "Ranges"]

StepRanges(s) ==
  IF \E p \in 1..s.D : ~Has(s.text, KeyP(p, 82)) THEN Refuse(s, "pnr") ELSE [s EXCEPT !.pc = "Locate"]

StepLocate(s) ==
  LET tot == GetInt(s.text, A_TOT) IN
  IF s.db # 0 /\ s.de # 0
  THEN (IF ~tot.ok THEN Refuse(s, "tot") ELSE [s EXCEPT !.pc = "Size", !.begin = s.db, !.end = s.de, !.N = tot.v])
  ELSE IF s.v3 THEN
       LET b == GetInt(s.text, A_BEGINDATA)  e == GetInt(s.text, A_ENDDATA) IN
       IF ~b.ok \/ ~e.ok THEN Refuse(s, "data-keywords")
       ELSE IF b.v = 0 \/ e.v = 0 THEN Refuse(s, "data-unlocated")
       ELSE IF ~tot.ok THEN Refuse(s, "tot")
       ELSE [s EXCEPT !.pc = "Size", !.begin = b.v, !.end = e.v, !.N = tot.v]
  ELSE Refuse(s, "data-unlocated")

RowBytes(s) == LET RECURSIVE Sum(_)
                   Sum(p) == IF p > s.D THEN 0 ELSE (s.widths[p] \div 8) + Sum(p + 1)
               IN Sum(1)
SizeOK(n, begin, end) == n = (end + 1) - begin \/ n = end - begin

StepSize(s) ==
  IF s.dt = "I" THEN
     IF s.D = 0 THEN Refuse(s, "no-parameters")              \* param_bit_widths[0] -> IndexError
     ELSE IF \E p \in 1..s.D : s.widths[p] > 64 THEN Refuse(s, "too-wide")
     ELSE IF ~SizeOK(s.N * RowBytes(s), s.begin, s.end) THEN Refuse(s, "size")
     ELSE [s EXCEPT !.pc = "Map"]
  ELSE LET nb == IF s.dt = "F" THEN 32 ELSE 64 IN
       IF \E p \in 1..s.D : s.widths[p] # nb THEN Refuse(s, "float-width")
       ELSE IF ~SizeOK(s.N * s.D * (nb \div 8), s.begin, s.end) THEN Refuse(s, "size")
       ELSE [s EXCEPT !.pc = "Map"]

(* np.memmap(offset=begin, shape): the mapped extent must lie inside the real file *)
StepMap(s) ==
  IF Len(s.f) = 0 \/ s.begin + s.N * RowBytes(s) > Len(s.f) THEN Refuse(s, "map") ELSE [s EXCEPT !.pc = "Decode"]

ColOff(s, p) == LET RECURSIVE Sum(_)
                    Sum(q) == IF q >= p THEN 0 ELSE (s.widths[q] \div 8) + Sum(q + 1)
                IN Sum(1)
StepDecode(s) ==
  LET rb == RowBytes(s)
      cell(r, p) == LET raw == SubSeq(s.f, s.begin + (r - 1) * rb + ColOff(s, p) + 1,
                                      s.begin + (r - 1) * rb + ColOff(s, p) + (s.widths[p] \div 8))
                    IN IF s.dt = "I" THEN (IF s.big THEN Rev(raw) ELSE raw)      \* -> little-endian limbs
                       ELSE (IF s.big THEN raw ELSE Rev(raw))                    \* -> IEEE bytes, MSB first
  IN [s EXCEPT !.pc = IF s.dt = "I" THEN "Mask" ELSE "Done",
               !.data = [r \in 1..s.N |-> [p \in 1..s.D |-> cell(r, p)]]]

(* width of the array's integer type: the common width on the uniform path, else the next  *)
(* power of two above the widest parameter.  A range mask wider than that cannot be applied *)
(* (NumPy refuses the out-of-bounds constant): ranges above 2^width are outside C01.        *)
MaxW(s) == LET RECURSIVE M(_)
               M(p) == IF p > s.D THEN 0 ELSE Max(s.widths[p], M(p + 1))
           IN M(1)
DtypeBits(s) == LET m == MaxW(s) IN
                IF m <= 8 THEN 8 ELSE IF m <= 16 THEN 16 ELSE IF m <= 32 THEN 32 ELSE 64

StepMask(s) ==
  IF \E p \in 1..s.D : p <= Len(s.rbits) /\ s.rbits[p] > DtypeBits(s) THEN Refuse(s, "mask-overflow") ELSE
  [s EXCEPT !.pc = "Done",
            !.data = [r \in 1..s.N |-> [p \in 1..s.D |->
                        IF p <= Len(s.rbits) THEN MaskLimbs(s.data[r][p], s.rbits[p]) ELSE s.data[r][p]]]]

Step(s) ==
  CASE s.pc = "Header"   -> StepHeader(s)   [] s.pc = "Text"     -> StepText(s)
    [] s.pc = "SText"    -> StepSText(s)    [] s.pc = "Mode"     -> StepMode(s)
    [] s.pc = "Datatype" -> StepDatatype(s) [] s.pc = "Par"      -> StepPar(s)
    [] s.pc = "Align"    -> StepAlign(s)    [] s.pc = "Byteord"  -> StepByteord(s)
    [] s.pc = "NextData" -> StepNextData(s) [] s.pc = "Analysis" -> StepAnalysis(s)
    [] s.pc = "Ranges"   -> StepRanges(s)   [] s.pc = "Locate"   -> StepLocate(s)
    [] s.pc = "Size"     -> StepSize(s)     [] s.pc = "Map"      -> StepMap(s)
    [] s.pc = "Decode"   -> StepDecode(s)   [] s.pc = "Mask"     -> StepMask(s)
    [] OTHER             -> s
Terminal(s) == s.pc \in {"Done", "Refused"}

RECURSIVE Run(_)
Run(s) == IF Terminal(s) THEN s ELSE Run(Step(s))

(* the outcome in the vocabulary the harness projects to *)
OutcomeOf(s) == IF s.pc = "Refused" THEN [k |-> "refused", why |-> s.why, N |-> 0, D |-> 0, data |-> <<>>, text |-> {}, an |-> {},
                                              nxwarn |-> FALSE, anwarn |-> FALSE]
                ELSE [k |-> "ok", why |-> "-", N |-> s.N, D |-> s.D, data |-> s.data, text |-> s.text, an |-> s.an,
                      nxwarn |-> s.nxwarn, anwarn |-> s.anwarn]
ReadFile(f, rbits) == OutcomeOf(Run(S0(f, rbits)))
=============================================================================
