---------------------------- MODULE Gates ----------------------------
(* The documented predicates of the simple gates, over integer event values.    *)
(* A gate result is [k |-> "err"] or [k |-> "ok", mask |-> sequence of BOOLEAN]; *)
(* gated data are by definition input[mask] with the input's metadata.          *)
EXTENDS Integers, Sequences

GErr == [k |-> "err", mask |-> <<>>]
GOk(mask) == [k |-> "ok", mask |-> mask]
INF == 1000000                      \* stands for "no limit"

(* start/end: drop the first ns and last ne events (negative counts mean 0) *)
StartEnd(n, ns0, ne0) ==
  LET ns == IF ns0 < 0 THEN 0 ELSE ns0
      ne == IF ne0 < 0 THEN 0 ELSE ne0
  IN IF n < ns + ne THEN GErr ELSE GOk([i \in 1..n |-> i > ns /\ i <= n - ne])

(* high/low: strictly between the thresholds in ALL chosen channels.              *)
(* ev: sequence of events, each a sequence of channel values; chs: chosen columns *)
(* (1-based); hi/lo: explicit threshold or NONE -> per-channel default: the range *)
(* limit when the container has one (rng[c] = <<lo, hi>>), else no limit.         *)
NONE == -999
NANV == -777                        \* stands for a NaN reading (floating-point data): strictly between nothing
HighLow(ev, chs, hi, lo, hasRange, rng) ==
  LET H(c) == IF hi # NONE THEN hi ELSE IF hasRange THEN rng[c][2] ELSE INF
      L(c) == IF lo # NONE THEN lo ELSE IF hasRange THEN rng[c][1] ELSE -INF
  IN GOk([i \in 1..Len(ev) |-> \A j \in 1..Len(chs) :
            ev[i][chs[j]] # NANV /\ ev[i][chs[j]] < H(chs[j]) /\ ev[i][chs[j]] > L(chs[j])])

(* ellipse at rotation 0 with integer centre and semi-axes: inside or ON the      *)
(* ellipse  <=>  b^2 (x-cx)^2 + a^2 (y-cy)^2 <= a^2 b^2  (exact integers)           *)
EllipseAxis(ev, chs, cx, cy, a, b) ==
  IF Len(chs) # 2 THEN GErr
  ELSE GOk([i \in 1..Len(ev) |->
         LET dx == ev[i][chs[1]] - cx  dy == ev[i][chs[2]] - cy
         IN b * b * dx * dx + a * a * dy * dy <= a * a * b * b])

(* ellipse in log10 space: an event coordinate is given by its decimal exponent (value 10^e), or UNDEF for a value   *)
(* that has no logarithm (zero or negative); such an event is never inside.  Centre in exponents, rotation 0.      *)
UNDEF == -1
EllipseLog(ev, chs, cx, cy, a, b) ==
  IF Len(chs) # 2 THEN GErr
  ELSE GOk([i \in 1..Len(ev) |->
         LET x == ev[i][chs[1]]  y == ev[i][chs[2]]
         IN x # UNDEF /\ y # UNDEF /\ b * b * (x - cx) * (x - cx) + a * a * (y - cy) * (y - cy) <= a * a * b * b])
=============================================================================
