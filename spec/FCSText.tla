---------------------------- MODULE FCSText ----------------------------
(* The FCS escaping rule for TEXT, supplemental TEXT and ANALYSIS segments.      *)
(* Strings are sequences of character codes.  d is the delimiter code.           *)
(*                                                                               *)
(* Decode is a LEFT-TO-RIGHT tokenizer, deliberately not the implementation's    *)
(* backwards parity scan (io.py read_fcs_text_segment).  Deviations of the code  *)
(* from the pure rule that the code documents are named:                         *)
(*   TrailingGarbage  bytes after the last delimiter are ignored                 *)
(*   SuppNoDelimiter  supplemental segment without any delimiter -> no keywords  *)
(*   TolerantEnding   content ends in an even run (>= 2) of delimiters right     *)
(*                    after a token: warn, drop them                             *)
EXTENDS Integers, Sequences, FiniteSets

Rep(d, n) == [i \in 1..n |-> d]

RECURSIVE RunLen(_, _, _)
RunLen(c, i, d) == IF i > Len(c) \/ c[i] # d THEN 0 ELSE 1 + RunLen(c, i + 1, d)

LastD(q, d) == LET S == {i \in 1..Len(q) : q[i] = d}
               IN IF S = {} THEN 0 ELSE CHOOSE i \in S : \A j \in S : j <= i

Err == [k |-> "err"]
Ok(toks, warn, slack) == [k |-> "ok", toks |-> toks, warn |-> warn, slack |-> slack]

(* c = content up to and including the last delimiter; i = scan position;        *)
(* cur = token being accumulated; toks = finished tokens.                         *)
RECURSIVE Scan(_, _, _, _, _)
Scan(c, d, i, cur, toks) ==
  IF i > Len(c)
  THEN IF cur # <<>> THEN Err ELSE Ok(toks, FALSE, 0)
  ELSE IF c[i] # d THEN Scan(c, d, i + 1, Append(cur, c[i]), toks)
  ELSE LET r == RunLen(c, i, d) IN
       IF cur = <<>> THEN Err                                \* token would start with a delimiter
       ELSE IF r % 2 = 1
            THEN Scan(c, d, i + r, <<>>, Append(toks, cur \o Rep(d, (r - 1) \div 2)))
            ELSE IF i + r > Len(c)                           \* TolerantEnding
                 THEN Ok(Append(toks, cur), TRUE, r \div 2)
                 ELSE Scan(c, d, i + r, cur \o Rep(d, r \div 2), toks)

Decode(q, d, supp) ==
  IF q = <<>> THEN Ok(<<>>, FALSE, 0)
  ELSE IF ~supp /\ q[1] # d THEN Err
  ELSE LET e == LastD(q, d) IN
       IF e = 0 THEN Ok(<<>>, FALSE, 0)                       \* SuppNoDelimiter
       ELSE LET c == SubSeq(q, 1, e)
                r == Scan(c, d, IF c[1] = d THEN 2 ELSE 1, <<>>, <<>>)
            IN IF r.k = "err" THEN Err
               ELSE IF Len(r.toks) % 2 = 1 THEN Err
               ELSE r

(* keyword/value pairs of a token list, later duplicates win (a dictionary) *)
PairsOf(toks) == [i \in 1..(Len(toks) \div 2) |-> <<toks[2 * i - 1], toks[2 * i]>>]
DictOf(toks) == LET P == PairsOf(toks)
                IN {P[i] : i \in {j \in 1..Len(P) : \A m \in (j + 1)..Len(P) : P[m][1] # P[j][1]}}

(* The outcome the reader must produce, in the vocabulary the harness projects   *)
(* to.  dicts is the SET of acceptable dictionaries: a singleton except for      *)
(* TolerantEnding, where the last value may keep between 0 and slack of the      *)
(* dropped delimiters (the property tolerates this one ending and only requires  *)
(* a warning).                                                                    *)
AcceptableDicts(r, d) ==
  IF ~r.warn THEN {DictOf(r.toks)}
  ELSE {DictOf([r.toks EXCEPT ![Len(r.toks)] = @ \o Rep(d, j)]) : j \in 0..r.slack}

Outcome(q, d, supp) ==
  LET r == Decode(q, d, supp) IN
  IF r.k = "err" THEN [k |-> "err"]
  ELSE [k |-> "ok", dicts |-> AcceptableDicts(r, d), warn |-> r.warn]

Accepts(exp, obsk, obsdict, obswarn) ==
  IF exp.k = "err" THEN obsk = "err"
  ELSE obsk = "ok" /\ obsdict \in exp.dicts /\ obswarn = exp.warn

----------------------------------------------------------------------------
(* Writer *)
Esc(t, d) == LET RECURSIVE E(_)
                 E(i) == IF i > Len(t) THEN <<>>
                         ELSE (IF t[i] = d THEN <<d, d>> ELSE <<t[i]>>) \o E(i + 1)
             IN E(1)

RECURSIVE EncPairs(_, _, _)
EncPairs(pairs, d, i) == IF i > Len(pairs) THEN <<>>
                         ELSE Esc(pairs[i][1], d) \o <<d>> \o Esc(pairs[i][2], d) \o <<d>> \o EncPairs(pairs, d, i + 1)

Encode(pairs, d) == <<d>> \o EncPairs(pairs, d, 1)
EncodeSupp(pairs, d) == EncPairs(pairs, d, 1)         \* supplemental form without the leading delimiter

FlatToks(pairs) == LET RECURSIVE F(_)
                       F(i) == IF i > Len(pairs) THEN <<>> ELSE <<pairs[i][1], pairs[i][2]>> \o F(i + 1)
                   IN F(1)

(* supplemental keywords override primary ones *)
Merge(primary, supp) == {p \in primary : \A s \in supp : s[1] # p[1]} \cup supp
=============================================================================
