---------------------------- MODULE NumpyIndex ----------------------------
(* NumPy indexing of a 2-D array (and of the 1-D results), for the key grammar   *)
(* of C04, with the channel-metadata expectation of FCSData on top.              *)
(*                                                                               *)
(* Cells are named by their ORIGIN <<r, c>> in the base array (0-based).  An     *)
(* abstract object is                                                            *)
(*   scalar  one origin cell                                                     *)
(*   vec     a sequence of origin cells (1-D result) + metadata                  *)
(*   mat     rows x cols outer product of origin rows and origin columns         *)
(* meta is the sequence of origin columns the object's channel metadata must     *)
(* describe.  mm says how meta relates to a vec's elements: "elem" one entry     *)
(* per element, "one" a single column that all elements come from.               *)
EXTENDS Integers, Sequences, FiniteSets

NONE == 99            \* stands for Python's None inside slices
NAME == 100           \* list/tuple element 100+c is the NAME of origin column c

Clamp(x, lo, hi) == IF x < lo THEN lo ELSE IF x > hi THEN hi ELSE x

RECURSIVE RangeSeq(_, _, _)
RangeSeq(st, en, s) ==
  IF (s > 0 /\ st >= en) \/ (s < 0 /\ st <= en) THEN <<>>
  ELSE <<st>> \o RangeSeq(st + s, en, s)

(* CPython slice.indices(n) followed by range(start, stop, step) *)
PySlice(a, b, s0, n) ==
  LET s  == IF s0 = NONE THEN 1 ELSE s0
      lo == IF s > 0 THEN 0 ELSE -1
      hi == IF s > 0 THEN n ELSE n - 1
      st == IF a = NONE THEN (IF s > 0 THEN 0 ELSE n - 1)
            ELSE IF a < 0 THEN Clamp(a + n, lo, hi) ELSE Clamp(a, lo, hi)
      en == IF b = NONE THEN (IF s > 0 THEN n ELSE -1)
            ELSE IF b < 0 THEN Clamp(b + n, lo, hi) ELSE Clamp(b, lo, hi)
  IN RangeSeq(st, en, s)

----------------------------------------------------------------------------
(* keys: one record shape for every form *)
Key(t, i, a, b, s, xs) == [t |-> t, i |-> i, a |-> a, b |-> b, s |-> s, xs |-> xs]
KInt(i)        == Key("int", i, 0, 0, 0, <<>>)
KSlice(a,b,s)  == Key("slice", 0, a, b, s, <<>>)
KList(xs)      == Key("list", 0, 0, 0, 0, xs)
KMask(bs)      == Key("mask", 0, 0, 0, 0, bs)        \* bs: sequence of 0/1
KEll           == Key("ell", 0, 0, 0, 0, <<>>)
KAbsent        == Key("absent", 0, 0, 0, 0, <<>>)
KName(c)       == Key("name", c, 0, 0, 0, <<>>)       \* c = origin column, or an id no column has
KTuple(xs)     == Key("tuple", 0, 0, 0, 0, xs)
KBoolList(bs)  == Key("boollist", 0, 0, 0, 0, bs)    \* other forms NumPy accepts
KNpInt(i)      == Key("npint", i, 0, 0, 0, <<>>)
KNpArray(xs)   == Key("nparray", 0, 0, 0, 0, xs)

OtherForm(k) == k.t \in {"boollist", "npint", "nparray"}

AxErr == [ok |-> FALSE, kind |-> "err", idx |-> <<>>, oob |-> FALSE]
AxOk(kind, idx) == [ok |-> TRUE, kind |-> kind, idx |-> idx, oob |-> FALSE]
InRange(i, n) == i >= -n /\ i < n
Norm(i, n) == IF i < 0 THEN i + n ELSE i
Iota(n) == [j \in 1..n |-> j - 1]

(* one axis of length n indexed by a (resolved) key *)
Ax(k, n) ==
  CASE k.t = "int"   -> IF InRange(k.i, n) THEN AxOk("scalar", <<Norm(k.i, n)>>) ELSE AxErr
    [] k.t = "slice" -> IF k.s = 0 THEN AxErr ELSE AxOk("basic", PySlice(k.a, k.b, k.s, n))
    [] k.t = "list"  -> \* out-of-range entries are only detected when NumPy iterates over them (oob)
                        [ok |-> TRUE, kind |-> "adv",
                         idx |-> [j \in 1..Len(k.xs) |-> IF InRange(k.xs[j], n) THEN Norm(k.xs[j], n) ELSE 0],
                         oob |-> \E j \in 1..Len(k.xs) : ~InRange(k.xs[j], n)]
    [] k.t = "mask"  -> IF Len(k.xs) = n
                        THEN AxOk("adv", SelectSeq(Iota(n), LAMBDA p : k.xs[p + 1] = 1)) ELSE AxErr
    [] k.t = "ell"   -> AxOk("basic", Iota(n))
    [] OTHER         -> AxErr

(* position (0-based) of the first entry of meta equal to c, or -1 *)
PosOf(c, meta) == LET S == {j \in 1..Len(meta) : meta[j] = c}
                  IN IF S = {} THEN -1 ELSE (CHOOSE j \in S : \A m \in S : j <= m) - 1

(* translate a column key (names, tuples, other forms) into a plain axis key *)
ResolveCol(ck, meta) ==
  CASE ck.t = "name" -> LET p == PosOf(ck.i, meta) IN
                        IF p < 0 THEN [ok |-> FALSE, key |-> ck] ELSE [ok |-> TRUE, key |-> KInt(p)]
    [] ck.t \in {"list", "tuple", "nparray"} ->
         LET R == [j \in 1..Len(ck.xs) |-> IF ck.xs[j] >= NAME THEN PosOf(ck.xs[j] - NAME, meta) ELSE ck.xs[j]]
             bad == \E j \in 1..Len(ck.xs) : ck.xs[j] >= NAME /\ R[j] < 0
         IN [ok |-> ~bad, key |-> KList(R)]
    [] ck.t = "boollist" -> [ok |-> TRUE, key |-> KMask(ck.xs)]
    [] ck.t = "npint"    -> [ok |-> TRUE, key |-> KInt(ck.i)]
    [] OTHER             -> [ok |-> TRUE, key |-> ck]

----------------------------------------------------------------------------
(* abstract objects, one record shape *)
Obj(k, cells, rows, cols, meta, mm, view) ==
  [k |-> k, cells |-> cells, rows |-> rows, cols |-> cols, meta |-> meta, mm |-> mm, view |-> view]
ErrObj == Obj("err", <<>>, <<>>, <<>>, <<>>, "-", FALSE)
Scalar(cell) == Obj("scalar", <<cell>>, <<>>, <<>>, <<>>, "-", FALSE)
MM(meta) == IF Len(meta) = 1 THEN "one" ELSE "elem"
Vec(cells, meta, mm, view) == Obj("vec", cells, <<>>, <<>>, meta, mm, view)
Mat(rows, cols, view) == Obj("mat", <<>>, rows, cols, cols, "-", view)
Base(R, C) == Mat(Iota(R), Iota(C), TRUE)

Map(f, idx) == [j \in 1..Len(idx) |-> IF idx[j] + 1 \in DOMAIN f THEN f[idx[j] + 1] ELSE 0]   \* (placeholder entries of out-of-range keys)

(* cells of an object in reading order *)
CellsOf(o) == IF o.k = "mat"
              THEN [j \in 1..(Len(o.rows) * Len(o.cols)) |->
                      <<o.rows[((j - 1) \div Len(o.cols)) + 1], o.cols[((j - 1) % Len(o.cols)) + 1]>>]
              ELSE o.cells

IndexMat(o, rk, ck, strict) ==
  LET R  == Len(o.rows)
      C  == Len(o.cols)
      ra == Ax(rk, R)
      cr == ResolveCol(ck, o.meta)
      ca == IF ck.t = "absent" THEN AxOk("basic", Iota(C))
            ELSE IF ~cr.ok THEN AxErr ELSE Ax(cr.key, C)
      rows == Map(o.rows, ra.idx)
      cols == Map(o.cols, ca.idx)
      bothbasic == ra.kind \in {"scalar", "basic"} /\ ca.kind \in {"scalar", "basic"}
  IN
  IF ~ra.ok \/ ~ca.ok THEN ErrObj
  ELSE IF rk.t = "ell" /\ ck.t = "ell" THEN ErrObj
  ELSE IF strict /\ ca.oob THEN ErrObj       \* FCSData: out-of-range channel positions are always refused
  ELSE IF ~(ra.kind = "adv" /\ ca.kind = "adv") /\ (ra.oob \/ ca.oob) THEN ErrObj
  ELSE IF ra.kind = "scalar" /\ ca.kind = "scalar" THEN Scalar(<<rows[1], cols[1]>>)
  ELSE IF ra.kind = "adv" /\ ca.kind = "adv" THEN
         LET lr == Len(rows)  lc == Len(cols) IN
         IF lr # lc /\ lr # 1 /\ lc # 1 THEN ErrObj
         ELSE LET n == IF lr = lc THEN lr ELSE IF lr = 1 THEN lc ELSE lr
              IN IF n > 0 /\ (ra.oob \/ ca.oob) THEN ErrObj ELSE
              LET cells == [j \in 1..n |-> <<rows[IF lr = 1 THEN 1 ELSE j], cols[IF lc = 1 THEN 1 ELSE j]>>]
              IN Vec(cells, cols, MM(cols), FALSE)
  ELSE IF ra.kind = "scalar" THEN            \* one row, several columns: a row vector
         Vec([j \in 1..Len(cols) |-> <<rows[1], cols[j]>>], cols, MM(cols), ca.kind = "basic")
  ELSE IF ca.kind = "scalar" THEN            \* several rows, one column: a column vector
         Vec([j \in 1..Len(rows) |-> <<rows[j], cols[1]>>], cols, "one", ra.kind = "basic")
  ELSE Mat(rows, cols, bothbasic)

IndexVec(o, rk, ck) ==
  LET n  == Len(o.cells)
      ra == Ax(rk, n)
      sel == Map(o.cells, ra.idx)
  IN
  IF ck.t # "absent" THEN ErrObj            \* two indices on a 1-D array
  ELSE IF ~ra.ok \/ ra.oob THEN ErrObj
  ELSE IF ra.kind = "scalar" THEN Scalar(sel[1])
  ELSE Vec(sel, IF o.mm = "elem" THEN Map(o.meta, ra.idx) ELSE o.meta, o.mm, ra.kind = "basic")

IndexG(o, rk, ck, strict) ==
  CASE o.k = "mat" -> IndexMat(o, rk, ck, strict)
    [] o.k = "vec" -> IndexVec(o, rk, ck)
    [] OTHER       -> ErrObj                 \* scalars and errors are terminal

Index(o, rk, ck) == IndexG(o, rk, ck, TRUE)       \* what a sample must do
NpIndex(o, rk, ck) == IndexG(o, rk, ck, FALSE)    \* what plain NumPy does (differs only for an
                                                  \* out-of-range column met by an empty row selection)

(* a 1-D result whose metadata is per element, indexed by a non-identity        *)
(* selection: the one place where the pinned implementation is known not to     *)
(* follow (known finding C04/rowvector-subselect).                               *)
RowVecSubselect(o, rk, ck) ==
  /\ o.k = "vec" /\ o.mm = "elem" /\ ck.t = "absent"
  /\ LET ra == Ax(rk, Len(o.cells)) IN ra.ok /\ ~ra.oob /\ ra.kind # "scalar" /\ ra.idx # Iota(Len(o.cells))

(* theorems checked by TLC on every generated case *)
MetaAligned(o) ==
  CASE o.k = "mat" -> o.meta = o.cols
    [] o.k = "vec" -> IF o.mm = "elem"
                      THEN Len(o.meta) = Len(o.cells) /\ \A j \in 1..Len(o.cells) : o.cells[j][2] = o.meta[j]
                      ELSE Len(o.meta) = 1 /\ \A j \in 1..Len(o.cells) : o.cells[j][2] = o.meta[1]
    [] OTHER -> TRUE
=============================================================================
