------------------------------ MODULE SessionInd ------------------------------
(* Session.tla's transition relation on <<cols, rows>> without the bounded history, typed for Apalache.   *)
(* The structural invariants are inductive: they hold after sessions of ANY length.                       *)
EXTENDS Integers, Sequences, FiniteSets, Apalache
VARIABLES
  \* @type: Seq(<<Int, Int>>);
  cols,
  \* @type: Seq(Int);
  rows

NCh == 4
NEv == 6
MefChans == {2, 3}
\* @type: Int => Set(Int);
Sat(ch) == IF ch = 1 THEN {1} ELSE IF ch = 2 THEN {2} ELSE IF ch = 3 THEN {1, 3} ELSE {}

\* @type: (Int, Int) => <<Int, Int>>;
C(ch, u) == <<ch, u>>
\* @type: Seq(Int) => Set(Int);
Rng(s) == {s[i] : i \in DOMAIN s}
\* @type: Seq(Int) => Bool;
Distinct(s) == \A i, j \in DOMAIN s : i # j => s[i] # s[j]

Init == cols = <<C(1, 0), C(2, 0), C(3, 0), C(4, 0)>> /\ rows = <<1, 2, 3, 4, 5, 6>>

(* channel arguments: sequences of 1..2 distinct current positions (longer ascending lists add nothing structurally) *)
PickCols == \E a \in 1..NCh, b \in 0..NCh :
              /\ a <= Len(cols) /\ b <= Len(cols) /\ a # b
              /\ cols' = IF b = 0 THEN <<cols[a]>> ELSE <<cols[a], cols[b]>>
              /\ UNCHANGED rows
SliceCols == \E a \in 0..(NCh - 1), b \in 1..NCh :
              /\ a < b /\ b <= Len(cols)
              /\ cols' = SubSeq(cols, a + 1, b)
              /\ UNCHANGED rows
Conv(u0, u1, needCurve) == \E S \in SUBSET (1..NCh) :
              /\ S # {} /\ \A i \in S : i <= Len(cols) /\ cols[i][2] = u0 /\ (needCurve => cols[i][1] \in MefChans)
              /\ cols' = FunAsSeq([i \in 1..NCh |-> IF i > Len(cols) THEN C(1, 0) ELSE IF i \in S THEN C(cols[i][1], u1) ELSE cols[i]], Len(cols), NCh)
              /\ UNCHANGED rows
ToRfi == Conv(0, 1, FALSE)
ToMef == Conv(1, 2, TRUE)
GateHL == \E S \in SUBSET (1..NCh) :
              /\ \A i \in S : i <= Len(cols)
              /\ rows' = SelectSeq(rows, LAMBDA e : \A i \in S : e \notin Sat(cols[i][1]))
              /\ UNCHANGED cols
RowsOp == /\ Len(rows) >= 2
          /\ \/ rows' = Tail(rows)
             \/ rows' = SubSeq(rows, 1, Len(rows) - 1)
             \/ rows' = <<rows[Len(rows)], rows[1]>>
             \/ rows' = SelectSeq(rows, LAMBDA e : e % 2 = 0)
          /\ UNCHANGED cols
GateSE == \E ns \in 0..2, ne \in 0..2 :
              /\ ns + ne <= Len(rows)
              /\ rows' = SubSeq(rows, ns + 1, Len(rows) - ne)
              /\ UNCHANGED cols
Next == PickCols \/ SliceCols \/ ToRfi \/ ToMef \/ GateHL \/ RowsOp \/ GateSE

TypeOK == /\ Len(cols) \in 1..NCh /\ \A i \in DOMAIN cols : cols[i][1] \in 1..NCh /\ cols[i][2] \in 0..2
          /\ Len(rows) \in 0..NEv /\ \A i \in DOMAIN rows : rows[i] \in 1..NEv
ColsDistinct == \A i, j \in DOMAIN cols : i # j => cols[i][1] # cols[j][1]
RowsDistinct == Distinct(rows)
MefOnlyCalibrated == \A i \in DOMAIN cols : cols[i][2] = 2 => cols[i][1] \in MefChans
IndInv == TypeOK /\ ColsDistinct /\ RowsDistinct /\ MefOnlyCalibrated
IndInit == cols = Gen(4) /\ rows = Gen(6) /\ IndInv

(* negative control: MEF conversion without the curve test *)
NextBad == Next \/ Conv(1, 2, FALSE)
=============================================================================
