------------------------------ MODULE RunEnvInd ------------------------------
(* The transition relation of RunEnv without the bounded history variable, typed for Apalache: the two   *)
(* file-system invariants are inductive, so they hold for histories of ANY length (unbounded MaxOps).    *)
EXTENDS Integers, FiniteSets
VARIABLES
  \* @type: Str;
  cwd,
  \* @type: Set(<<Str, Str>>);
  dirs,
  \* @type: Set(<<Str, Str>>);
  figs,
  \* @type: Bool;
  outx

\* @type: (Str, Str) => <<Str, Str>>;
D(p, k) == <<p, k>>
Places == {"wb", "other"}
Kinds == {"plot_beads", "plot_samples"}
WbDirs == {D("wb", k) : k \in Kinds}

Init == cwd = "wb" /\ dirs = {} /\ figs = {} /\ outx = FALSE
Chdir(p) == cwd # p /\ cwd' = p /\ UNCHANGED <<dirs, figs, outx>>
Stray(k) == cwd = "other" /\ D("other", k) \notin dirs /\ dirs' = dirs \union {D("other", k)} /\ UNCHANGED <<cwd, figs, outx>>
Run(plot) == /\ outx' = TRUE
             /\ dirs' = IF plot THEN dirs \union WbDirs ELSE dirs
             /\ figs' = IF plot THEN figs \union WbDirs ELSE figs
             /\ UNCHANGED cwd
Next == (\E p \in Places : Chdir(p)) \/ (\E k \in Kinds : Stray(k)) \/ (\E b \in BOOLEAN : Run(b))

(* negative control: the change C15-r3 made - the plot folder decision follows the CURRENT directory *)
RunBad(plot) == /\ outx' = TRUE
                /\ dirs' = IF plot THEN dirs \union {D(cwd, k) : k \in Kinds} ELSE dirs
                /\ figs' = IF plot THEN figs \union {D(cwd, k) : k \in Kinds} ELSE figs
                /\ UNCHANGED cwd
NextBad == (\E p \in Places : Chdir(p)) \/ (\E k \in Kinds : Stray(k)) \/ (\E b \in BOOLEAN : RunBad(b))

TypeOK == cwd \in Places /\ dirs \in SUBSET (Places \X Kinds) /\ figs \in SUBSET (Places \X Kinds) /\ outx \in BOOLEAN
StrayUntouched == \A k \in Kinds : D("other", k) \notin figs
FiguresUnderWorkbook == figs \subseteq WbDirs /\ figs \subseteq dirs
IndInv == TypeOK /\ StrayUntouched /\ FiguresUnderWorkbook
=============================================================================
