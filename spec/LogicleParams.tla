---------------------------- MODULE LogicleParams ----------------------------
(* Which data source determines each parameter of the logicle scale              *)
(* (plot._LogicleTransform.__init__).  The specification NAMES the source; the   *)
(* numbers are formulas of the named sources, evaluated by the harness:          *)
(*   M from T :  max(4.5, 4.5 * log10(T) / log10(262144))                         *)
(*   W from the most negative event r :  (M - log10(T / |r|)) / 2, never below 0  *)
(* given = set of parameters given explicitly; hasData: data were supplied;       *)
(* hasRange: the data carry a channel range; hasNeg: some event is negative.      *)
(* The only fragment of C18 with case structure; bound to the code through C19.   *)
EXTENDS Integers, FiniteSets

Sources(given, hasData, hasRange, hasNeg) ==
  [T |-> IF "T" \in given THEN "given"
         ELSE IF ~hasData THEN "default-262144"
         ELSE IF hasRange THEN "largest-range-upper-limit" ELSE "largest-value",
   M |-> IF "M" \in given THEN "given" ELSE IF ~hasData THEN "default-4.5" ELSE "from-T",
   W |-> IF "W" \in given THEN "given" ELSE IF ~hasData THEN "default-0.5"
         ELSE IF hasNeg THEN "from-most-negative-event" ELSE "zero"]

(* sign of an explicitly given value: "pos", "zero", "neg" *)
Refused(given, sign) == ("T" \in given /\ sign["T"] # "pos") \/ ("M" \in given /\ sign["M"] # "pos")
                        \/ ("W" \in given /\ sign["W"] = "neg")
=============================================================================
