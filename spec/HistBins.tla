---------------------------- MODULE HistBins ----------------------------
(* Histogram bin edges of FCSData.hist_bins as exact fractions of the channel's  *)
(* span IN THE COORDINATE OF THE SCALE (channel value for linear, log10 for log, *)
(* display value 0..M for logicle):                                              *)
(*    coordinate of edge k  =  lo + (hi - lo) * Frac(k, res, n),   k = 0..n      *)
(*    Frac(k, res, n) = (2 k res - n) / (2 (res - 1) n)                           *)
(* i.e. n bins over [lo - d/2, hi + d/2] with d = (hi - lo)/(res - 1), so that    *)
(* with n = res every representable value is the centre of its own bin.          *)
EXTENDS Integers, Sequences

Frac(k, res, n) == <<2 * k * res - n, 2 * (res - 1) * n>>
Fracs(res, n) == [j \in 1..(n + 1) |-> Frac(j - 1, res, n)]
(* first and last edge, with the common factor n cancelled (TLC integers are 32-bit: res and n reach 2^18) *)
FracFirst(res) == <<-1, 2 * (res - 1)>>
FracLast(res) == <<2 * res - 1, 2 * (res - 1)>>
NoVal == <<>>

(* argument broadcasting over channels (io.py l.1513-1532) *)
(* chform = [t |-> "none" | "scalar" | "list", cols]; nb / sc = [t |-> "scalar" | "list", vals] *)
Requested(chform, C) == IF chform.t = "none" THEN [j \in 1..C |-> j] ELSE chform.cols
PerChannel(arg, j) == IF arg.t = "list" THEN arg.vals[j] ELSE arg.vals[1]
Scales == {"linear", "log", "logicle"}

(* result for one channel: number of bins, scale, first and last fraction, and   *)
(* (log scale) whether the lower limit had to be replaced by min(1, hi / 10^5)   *)
One(res, nb, sc, loNonPositive) ==
  LET n == IF nb = NoVal THEN res ELSE nb[1] IN
  [n |-> n, scale |-> sc, first |-> FracFirst(res), last |-> FracLast(res),
   fracs |-> IF n <= 16 THEN Fracs(res, n) ELSE <<>>,
   replaced |-> (sc = "log" /\ loNonPositive), res |-> res]

HistBinsCall(chform, nb, sc, C, resOf, loNonPos) ==
  LET req == Requested(chform, C)
      m == IF nb.t = "list" /\ Len(nb.vals) < Len(req) THEN Len(nb.vals) ELSE Len(req)
      m2 == IF sc.t = "list" /\ Len(sc.vals) < m THEN Len(sc.vals) ELSE m       \* zip() stops at the shortest list
  IN IF \E j \in 1..m2 : PerChannel(sc, j) \notin Scales THEN [k |-> "err", scalar |-> FALSE, per |-> <<>>]
     ELSE [k |-> "ok", scalar |-> chform.t = "scalar",
           per |-> [j \in 1..m2 |-> One(resOf[req[j]], PerChannel(nb, j), PerChannel(sc, j), loNonPos[req[j]])]]

(* theorems *)
Lt(a, b) == a[1] * b[2] < b[1] * a[2]            \* a < b for positive denominators
Increasing(res, n) == \A j \in 1..n : Frac(j - 1, res, n)[1] < Frac(j, res, n)[1]     \* same (positive) denominator
Covers(res, n) == FracFirst(res)[1] < 0 /\ Lt(<<1, 1>>, FracLast(res))
EndsAgree(res, n) == \* the cancelled forms equal the general formula (checked where it does not overflow)
  Frac(0, res, n)[1] * FracFirst(res)[2] = FracFirst(res)[1] * Frac(0, res, n)[2]
  /\ Frac(n, res, n)[1] * FracLast(res)[2] = FracLast(res)[1] * Frac(n, res, n)[2]
(* with n = res the centre of bin v is v / (res - 1) of the span *)
Centred(res) == \A v \in 0..(res - 1) :
   LET a == Frac(v, res, res)  b == Frac(v + 1, res, res) IN
   (a[1] + b[1]) * (res - 1) = 2 * v * a[2]
=============================================================================
