---------------------------- MODULE ExcelUI ----------------------------
(* The batch loop of FlowCal.excel_ui.process_samples_table as a state machine   *)
(* with the exception flow the code has: inside the per-row try block a          *)
(* documented fault is raised as ExcelUIException and stored as that row's       *)
(* result; any other exception class leaves the loop (Aborted).                  *)
(* A row is a record                                                             *)
(*   file   "ok-int" | "ok-float" | "missing" | "short"                           *)
(*   frac   "in" | "above" | "below"            gate fraction vs [0,1]            *)
(*   units  sequence over the instrument's fluorescence channels:                 *)
(*          "empty" | "channel" | "rfi" | "au" | "mef" | "unknown"                *)
(*   beads  state of the referenced beads row for a MEF request:                  *)
(*          "ok" | "failed" | "nomef" (beads row without MEF values) | "nocurve" |   *)
(*          "other-inst" | "other-amp" | "other-volt"                              *)
(* The row machine also emits `calls`: the sequence of library calls the row      *)
(* performs - the "documented steps applied by hand" of C10.                      *)
EXTENDS Integers, Sequences, FiniteSets
CONSTANTS RowKinds, MaxRows        \* the rows a table may be built from
VARIABLES table, cur, pc, ch, locals, calls, report, results, aborted

vars == <<table, cur, pc, ch, locals, calls, report, results, aborted>>
Table == table
NFL == 3                     \* the third fluorescence channel has no MEF column in any beads row
Row == Table[cur]

Ok(c, rep) == [k |-> "ok", err |-> "-", calls |-> c, report |-> rep]
Err(kind) == [k |-> "err", err |-> kind, calls |-> <<>>, report |-> <<>>]
Call(f, a) == <<f, a>>

(* ---- the row-local function: outcome of a row processed alone ---------------- *)
UnitsFault(r, c) ==
  CASE r.units[c] = "unknown" -> "units-not-recognized"
    [] r.units[c] = "mef" /\ c = 3 ->       \* calibration missing for the requested channel
         (CASE r.beads \in {"failed", "nomef"} -> "mef-function-not-available"
            [] r.beads = "other-inst" -> "other-instrument"
            [] OTHER -> "no-standard-curve")
    [] r.units[c] = "mef" ->
         (CASE r.beads \in {"failed", "nomef"} -> "mef-function-not-available"
            [] r.beads = "other-inst" -> "other-instrument"
            [] r.beads = "other-amp"  -> "other-amplification"
            [] r.beads = "other-volt" -> "other-voltage"
            [] r.beads = "nocurve"    -> "no-standard-curve"
            [] OTHER -> "none")
    [] OTHER -> "none"
FirstUnitsFault(r) == LET bad == {c \in 1..NFL : UnitsFault(r, c) # "none"} IN
                      IF bad = {} THEN "none" ELSE UnitsFault(r, CHOOSE c \in bad : \A d \in bad : c <= d)
UnitCalls(r, c) == CASE r.units[c] \in {"rfi", "au"} -> <<Call("to_rfi", <<"fl", c>>)>>
                     [] r.units[c] = "mef" -> <<Call("to_rfi", <<"fl", c>>), Call("to_mef", <<"fl", c>>)>>
                     [] OTHER -> <<>>
RECURSIVE UnitsProgram(_, _)
UnitsProgram(r, c) == IF c > NFL THEN <<>> ELSE UnitCalls(r, c) \o UnitsProgram(r, c + 1)
Reported(r) == LET RECURSIVE R(_)
                   R(c) == IF c > NFL THEN <<>> ELSE (IF r.units[c] # "empty" THEN <<c>> ELSE <<>>) \o R(c + 1)
               IN R(1)
RowOutcome(r) ==
  IF r.file = "missing" THEN Err("file-not-found")
  ELSE IF r.file = "short" THEN Err("fewer-than-400-events")
  ELSE IF FirstUnitsFault(r) # "none" THEN Err(FirstUnitsFault(r))
  ELSE IF r.frac # "in" THEN Err("gate-fraction")
  ELSE Ok(<<Call("to_rfi", <<"scatter">>)>> \o UnitsProgram(r, 1)
          \o <<Call("start_end", <<250, 100>>)>>
          \o (IF r.file = "ok-int" THEN <<Call("high_low", <<"scatter+reported">>)>> ELSE <<>>)
          \o <<Call("density2d", <<"scatter", "row-fraction", "logicle">>)>>, Reported(r))

(* ---- the loop as the code runs it -------------------------------------------- *)
(* locals are NOT reset between iterations (Python function scope): each carries   *)
(* the number of the row that last assigned it, so a stale read is visible         *)
Locals == {"sample", "report", "gated", "contour"}
Init == /\ table = <<>> /\ cur = 1 /\ pc = "Build"
        /\ ch = 1 /\ locals = [v \in Locals |-> 0] /\ calls = <<>> /\ report = <<>>
        /\ results = <<>> /\ aborted = FALSE

Assign(vs) == locals' = [v \in Locals |-> IF v \in vs THEN cur ELSE locals[v]]
Fresh(vs) == \A v \in vs : locals[v] = cur            \* every local read here was written by THIS row
Raise(kind) ==                                         \* except ExcelUIException as e: samples[id] = e
  /\ results' = Append(results, Err(kind))
  /\ pc' = "NextRow" /\ UNCHANGED <<table, cur, ch, locals, calls, report, aborted>>

(* environment: the table is assembled row by row, then the batch starts *)
AddRow == /\ pc = "Build" /\ Len(table) < MaxRows
          /\ \E r \in RowKinds : table' = Append(table, r)
          /\ UNCHANGED <<cur, pc, ch, locals, calls, report, results, aborted>>
Start == /\ pc = "Build" /\ pc' = (IF Len(table) = 0 THEN "Return" ELSE "Load")
         /\ UNCHANGED <<table, cur, ch, locals, calls, report, results, aborted>>

Load == /\ pc = "Load"
        /\ IF Row.file = "missing" THEN Raise("file-not-found")
           ELSE /\ Assign({"sample"}) /\ calls' = <<>> /\ report' = <<>> /\ ch' = 1
                /\ pc' = "Count" /\ UNCHANGED <<table, cur, results, aborted>>
Count == /\ pc = "Count" /\ Fresh({"sample"})
         /\ IF Row.file = "short" THEN Raise("fewer-than-400-events")
            ELSE pc' = "RfiScatter" /\ UNCHANGED <<table, cur, ch, locals, calls, report, results, aborted>>
RfiScatter == /\ pc = "RfiScatter" /\ Fresh({"sample"})
              /\ calls' = Append(calls, Call("to_rfi", <<"scatter">>)) /\ Assign({"sample", "report"})
              /\ pc' = "Units" /\ UNCHANGED <<table, cur, ch, report, results, aborted>>
Units == /\ pc = "Units" /\ Fresh({"sample", "report"})
         /\ IF ch > NFL THEN pc' = "Trim" /\ UNCHANGED <<table, cur, ch, locals, calls, report, results, aborted>>
            ELSE IF UnitsFault(Row, ch) # "none" THEN Raise(UnitsFault(Row, ch))
            ELSE /\ calls' = calls \o UnitCalls(Row, ch)
                 /\ report' = IF Row.units[ch] # "empty" THEN Append(report, ch) ELSE report
                 /\ ch' = ch + 1 /\ pc' = "Units" /\ UNCHANGED <<table, cur, locals, results, aborted>>
Trim == /\ pc = "Trim" /\ Fresh({"sample"})
        /\ calls' = Append(calls, Call("start_end", <<250, 100>>)) /\ Assign({"gated"})
        /\ pc' = "Desaturate" /\ UNCHANGED <<table, cur, ch, report, results, aborted>>
Desaturate == /\ pc = "Desaturate" /\ Fresh({"gated", "report"})
              /\ calls' = IF Row.file = "ok-int" THEN Append(calls, Call("high_low", <<"scatter+reported">>)) ELSE calls
              /\ pc' = "Density" /\ UNCHANGED <<table, cur, ch, locals, report, results, aborted>>
Density == /\ pc = "Density" /\ Fresh({"gated"})
           /\ IF Row.frac # "in" THEN Raise("gate-fraction")      \* ValueError of the gate converted to a row error
              ELSE /\ calls' = Append(calls, Call("density2d", <<"scatter", "row-fraction", "logicle">>))
                   /\ Assign({"gated", "contour"})
                   /\ pc' = "Store" /\ UNCHANGED <<table, cur, ch, report, results, aborted>>
Store == /\ pc = "Store" /\ Fresh({"gated"})
         /\ results' = Append(results, Ok(calls, report))
         /\ pc' = "NextRow" /\ UNCHANGED <<table, cur, ch, locals, calls, report, aborted>>
NextRow == /\ pc = "NextRow"
           /\ IF cur = Len(Table) THEN pc' = "Return" /\ cur' = cur ELSE pc' = "Load" /\ cur' = cur + 1
           /\ UNCHANGED <<table, ch, locals, calls, report, results, aborted>>
Next == AddRow \/ Start \/ Load \/ Count \/ RfiScatter \/ Units \/ Trim \/ Desaturate \/ Density \/ Store \/ NextRow
Spec == Init /\ [][Next]_vars /\ WF_vars(Next)

(* ---- a healthy beads row (process_beads_table): the gated beads sample is       *)
(* to_rfi(scatter + all fluorescence channels); start_end(250, 100); high_low on    *)
(* the scatter channels for integer data; density2d on scatter at the row fraction  *)
(* with smoothing 5; the calibration is then get_transform_fxn on that sample.      *)
BeadsProgram(isInt) ==
  <<Call("to_rfi", <<"scatter+fluorescence">>), Call("start_end", <<250, 100>>)>>
  \o (IF isInt THEN <<Call("high_low", <<"scatter">>)>> ELSE <<>>)
  \o <<Call("density2d", <<"scatter", "row-fraction", "logicle", "sigma5">>)>>
(* ... and, for a row with MEF values, the calibration on that gated sample with the ROW'S OWN arguments *)
BeadsCalibration ==
  <<Call("get_transform_fxn", <<"own-mef-values", "own-mef-channels", "own-clustering-channels">>)>>

(* ---- the statistics sheet: columns added per reported channel, in this order,   *)
(* each <<column suffix, library statistic, computed on positive events only>>     *)
StatColumns == << <<"Mean", "mean", FALSE>>, <<"Geom. Mean", "gmean", TRUE>>, <<"Median", "median", FALSE>>,
                  <<"Mode", "mode", FALSE>>, <<"Std", "std", FALSE>>, <<"CV", "cv", FALSE>>,
                  <<"Geom. Std", "gstd", TRUE>>, <<"Geom. CV", "gcv", TRUE>>, <<"IQR", "iqr", FALSE>>, <<"RCV", "rcv", FALSE>> >>
RowColumns == <<"Analysis Notes", "Number of Events", "Acquisition Time (s)">>
ChannelPrefixColumns == <<"Detector Volt.", "Amp. Type">>
(* histogram sheet: linear grid for channel numbers, logicle otherwise; counts over *)
(* every other edge of the library grid with twice the bins                         *)
HistScale(unit) == IF unit = "channel" THEN "linear" ELSE "logicle"

(* ---- properties ---------------------------------------------------------------- *)
NeverAborted == ~aborted
(* a row's stored result is the row-local function of that row alone *)
Isolation == \A r \in 1..Len(results) : results[r] = RowOutcome(Table[r])
TableOrder == Len(results) <= Len(Table) /\ (pc = "Return" => Len(results) = Len(Table))
EmptyTable == (pc = "Return" /\ Len(Table) = 0) => results = <<>>
NoStaleRead == pc \in {"Count", "RfiScatter"} => locals["sample"] = cur
Completes == <>(pc = "Return")
=============================================================================
