---------------------------- MODULE Calibration ----------------------------
(* Bookkeeping of FlowCal.mef.get_transform_fxn as a step machine                *)
(*     Cluster -> Order -> (per channel: Statistic -> Select -> Fit) -> Assemble *)
(* over abstract bead populations.  Population p (1..K) is the p-th in order of   *)
(* increasing brightness.  Per calibrated channel c:                             *)
(*   unknown[c][p]  the manufacturer value is given as None / NaN                *)
(*   sat[c][p]      the population piles up at a detector limit in that channel  *)
(*   mef[c][p]      manufacturer value (an integer id here; unknown -> 0)         *)
EXTENDS Integers, Sequences, FiniteSets
CONSTANTS K, NCh
VARIABLES pc, unknown, sat, labelOf, order, selected, selRfi, selMef, curves, ch

vars == <<pc, unknown, sat, labelOf, order, selected, selRfi, selMef, curves, ch>>
Pops == 1..K
Chans == 1..NCh
Mef(c, p) == 100 * c + p                 \* distinct ids: pairing errors become visible
Rfi(c, p) == 1000 * c + p                \* the statistic of population p in channel c

Filter(seq, mask) == LET RECURSIVE F(_)
                         F(i) == IF i > Len(seq) THEN <<>> ELSE (IF mask[i] THEN <<seq[i]>> ELSE <<>>) \o F(i + 1)
                     IN F(1)

Init == /\ pc = "Cluster"
        /\ unknown \in [Chans -> [Pops -> BOOLEAN]]
        /\ sat \in [Chans -> [Pops -> BOOLEAN]]
        /\ \A c \in Chans : \A p \in Pops : sat[c][p] => p \in {1, K}        \* only the dimmest / brightest can saturate
        /\ labelOf = <<>> /\ order = <<>> /\ selected = <<>> /\ selRfi = <<>> /\ selMef = <<>> /\ curves = <<>> /\ ch = 1

(* clustering returns one label per event; labels are an arbitrary renaming of the populations *)
Cluster == /\ pc = "Cluster"
           /\ \E perm \in {f \in [Pops -> Pops] : \A a, b \in Pops : a # b => f[a] # f[b]} : labelOf' = perm
           /\ pc' = "Order" /\ UNCHANGED <<unknown, sat, order, selected, selRfi, selMef, curves, ch>>
(* populations are re-ordered by distance of their mean to the origin = brightness *)
Order == /\ pc = "Order"
         /\ order' = [p \in Pops |-> p]            \* position p holds generating population p, whatever its label was
         /\ pc' = "Select" /\ UNCHANGED <<unknown, sat, labelOf, selected, selRfi, selMef, curves, ch>>
(* selection: not near a detector limit and value known; both lists filtered with the SAME mask *)
Select == /\ pc = "Select"
          /\ LET m == [p \in Pops |-> ~sat[ch][order[p]] /\ ~unknown[ch][order[p]]] IN
             /\ selected' = Append(selected, m)
             /\ selRfi' = Append(selRfi, Filter([p \in Pops |-> Rfi(ch, order[p])], m))
             /\ selMef' = Append(selMef, Filter([p \in Pops |-> Mef(ch, p)], m))
          /\ pc' = "Fit" /\ UNCHANGED <<unknown, sat, labelOf, order, curves, ch>>
(* the bead model needs at least three populations *)
Fit == /\ pc = "Fit"
       /\ IF Len(selRfi[ch]) < 3 THEN pc' = "Refused" /\ UNCHANGED <<curves, ch>>
          ELSE /\ curves' = Append(curves, ch)
               /\ IF ch = NCh THEN pc' = "Assemble" /\ ch' = ch ELSE pc' = "Select" /\ ch' = ch + 1
       /\ UNCHANGED <<unknown, sat, labelOf, order, selected, selRfi, selMef>>
Assemble == pc = "Assemble" /\ pc' = "Done" /\ UNCHANGED <<unknown, sat, labelOf, order, selected, selRfi, selMef, curves, ch>>
Next == Cluster \/ Order \/ Select \/ Fit \/ Assemble
Spec == Init /\ [][Next]_vars

(* ---- properties ---- *)
(* a population keeps ITS OWN manufacturer value whatever else was excluded *)
OwnValue == \A c \in 1..Len(selMef) : \A i \in 1..Len(selMef[c]) :
               selRfi[c][i] - 1000 * c = selMef[c][i] - 100 * c
EqualLengths == \A c \in 1..Len(selMef) : Len(selMef[c]) = Len(selRfi[c])
ExcludedStayOut == \A c \in 1..Len(selMef) : \A p \in Pops :
               (sat[c][p] \/ unknown[c][p]) => ~\E i \in 1..Len(selMef[c]) : selMef[c][i] = Mef(c, p)
CurvePerChannel == pc = "Done" => curves = [c \in Chans |-> c]          \* curve i belongs to channel i
RefusedOnlyWhenTooFew == pc = "Refused" => Len(selRfi[ch]) < 3
ExpectedSelected(c) == [p \in Pops |-> ~sat[c][p] /\ ~unknown[c][p]]
=============================================================================
