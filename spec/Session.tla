------------------------------ MODULE Session ------------------------------
(* An analysis session on one loaded sample, as the documentation describes it: *)
(* the user slices channels and events, converts channels to RFI and then to    *)
(* MEF with the function a calibration produced, removes saturated events with  *)
(* the default high/low gate, trims events with the start/end gate, and copies  *)
(* or pickles the result.  Numeric laws live in Units / RangeLaw / Gates; this  *)
(* module is the composition: what the sample IS after any sequence of steps.   *)
(*                                                                              *)
(*   cols : sequence of <<ch, u>>  - which file channel each column holds and   *)
(*                                   its units (0 raw, 1 RFI, 2 MEF)            *)
(*   rows : sequence of origin event numbers still present, in order            *)
(*   res  : "ok" | "err"           - outcome of the last step                   *)
(*   hist : the steps taken (<<op, A, spelling>>), replayed on the real library *)
(*                                                                              *)
(* Saturation is a property of the recorded event (Sat[ch] = events sitting at  *)
(* a limit of channel ch in the file): because limits travel with the data      *)
(* (C07) the default gate removes the same events in every unit.                *)
EXTENDS Integers, Sequences, FiniteSets
CONSTANTS MaxOps, InitUnit        \* InitUnit: units of the sample the session starts from (0 raw, 1 all RFI)

NCh == 4
NEv == 6
Sat == <<{1}, {2}, {1, 3}, {}>>        \* harness/session.py writes the file accordingly
MefChans == {2, 3}                     \* channels the calibration produced curves for

VARIABLES cols, rows, res, hist
vars == <<cols, rows, res, hist>>

Range(s) == {s[i] : i \in DOMAIN s}
Distinct(s) == \A i, j \in DOMAIN s : i # j => s[i] # s[j]
Asc(s) == \A i, j \in DOMAIN s : i < j => s[i] < s[j]
Desc(s) == \A i, j \in DOMAIN s : i < j => s[i] > s[j]
(* channel arguments: every ordered list of <= 2 distinct positions, ascending and descending lists beyond *)
ChanArgsTab == [n \in 1..4 |-> {s \in UNION {[1..k -> 1..n] : k \in 1..n} : Distinct(s) /\ (Len(s) > 2 => (Asc(s) \/ Desc(s)))}]
ChanArgs(n) == ChanArgsTab[n]            \* constant table: evaluated once by TLC
Spellings == {"name", "pos", "mixed"}

Init == /\ cols = [i \in 1..NCh |-> <<i, InitUnit>>]
        /\ rows = [i \in 1..NEv |-> i]
        /\ res = "ok"
        /\ hist = <<>>

(* ---- pure step functions -------------------------------------------------- *)
PickF(c, L) == [i \in 1..Len(L) |-> c[L[i]]]
SliceF(c, a, b) == SubSeq(c, a + 1, b)                        \* python c[a:b]
ConvF(c, L, u) == [i \in 1..Len(c) |-> IF i \in Range(L) THEN <<c[i][1], u>> ELSE c[i]]
GateF(c, r, L) == SelectSeq(r, LAMBDA e : \A i \in Range(L) : e \notin Sat[c[i][1]])
Every2(r) == [i \in 1..((Len(r) + 1) \div 2) |-> r[2 * i - 1]]
Rev(r) == [i \in 1..Len(r) |-> r[Len(r) + 1 - i]]
RowsF(r, k) == CASE k = 1 -> Tail(r)                           \* o[1:]
                 [] k = 2 -> SubSeq(r, 1, Len(r) - 1)          \* o[:-1]
                 [] k = 3 -> Every2(r)                         \* o[::2]
                 [] k = 4 -> SelectSeq(r, LAMBDA e : e % 2 = 0)  \* boolean mask: even-numbered events
                 [] k = 5 -> Rev(r)                            \* o[::-1]
                 [] k = 6 -> <<r[Len(r)], r[1]>>               \* integer list [-1, 0]

Step(op, A, sp, c2, r2, out) ==
  /\ Len(hist) < MaxOps
  /\ cols' = c2 /\ rows' = r2 /\ res' = out
  /\ hist' = Append(hist, <<op, A, sp>>)

(* ---- actions --------------------------------------------------------------- *)
PickCols == \E L \in ChanArgs(Len(cols)), sp \in Spellings :
              /\ (sp = "mixed" => Len(L) >= 2)
              /\ Step("pick", L, sp, PickF(cols, L), rows, "ok")
SliceCols == \E a \in 0..(Len(cols) - 1), b \in 1..Len(cols) :
              /\ a < b /\ (b - a) < Len(cols)
              /\ Step("slicec", <<a, b>>, "pos", SliceF(cols, a, b), rows, "ok")
RowsOp == \E k \in 1..6 :
              /\ Len(rows) >= 2
              /\ Len(RowsF(rows, k)) >= 1
              /\ Step("rows", <<k>>, "pos", cols, RowsF(rows, k), "ok")
ToRfi == \E L \in ChanArgs(Len(cols)), sp \in Spellings :
              /\ (sp = "mixed" => Len(L) >= 2)
              /\ \A i \in Range(L) : cols[i][2] = 0
              /\ Step("rfi", L, sp, ConvF(cols, L, 1), rows, "ok")
ToRfiAll ==   /\ \A i \in DOMAIN cols : cols[i][2] = 0         \* channels omitted: every channel
              /\ Step("rfi_all", <<>>, "pos", ConvF(cols, [i \in DOMAIN cols |-> i], 1), rows, "ok")
ToMef == \E L \in ChanArgs(Len(cols)), sp \in Spellings :
              /\ (sp = "mixed" => Len(L) >= 2)
              /\ \A i \in Range(L) : cols[i][2] = 1               \* MEF is made from RFI
              /\ IF /\ \A i \in Range(L) : cols[i][1] \in MefChans
                    /\ \A m \in MefChans : \E i \in DOMAIN cols : cols[i][1] = m
                 THEN Step("mef", L, sp, ConvF(cols, L, 2), rows, "ok")
                 ELSE Step("mef", L, sp, cols, rows, "err")
                 \* refused: no curve for a requested channel - or (behaviour of the code, modelled as it is) the
                 \* function made by a calibration looks up EVERY calibrated channel by name in the sample and
                 \* refuses a sample from which one of them was sliced away, whatever was requested
GateHL == \E L \in ChanArgs(Len(cols)), sp \in Spellings :
              /\ (sp = "mixed" => Len(L) >= 2)
              /\ Step("hl", L, sp, cols, GateF(cols, rows, L), "ok")
GateHLAll ==  Step("hl_all", <<>>, "pos", cols, GateF(cols, rows, [i \in DOMAIN cols |-> i]), "ok")
GateSE == \E ns \in 0..2, ne \in 0..2 :
              IF ns + ne > Len(rows) THEN Step("se", <<ns, ne>>, "pos", cols, rows, "err")
              ELSE Step("se", <<ns, ne>>, "pos", cols, SubSeq(rows, ns + 1, Len(rows) - ne), "ok")
Dup == \E k \in 1..4 : Step("dup", <<k>>, "pos", cols, rows, "ok")   \* copy, deepcopy, view, pickle

Next == PickCols \/ SliceCols \/ RowsOp \/ ToRfi \/ ToRfiAll \/ ToMef \/ GateHL \/ GateHLAll \/ GateSE \/ Dup
Spec == Init /\ [][Next]_vars

(* ---- the same steps as ONE function of (step name, argument), for arbitrary arguments ----------------- *)
(* Trace_Session judges recorded sessions of the real library with it (arguments there are wider than      *)
(* ChanArgs: any ordered list of distinct positions); ApplyAgrees ties it to the actions above.             *)
AllPos(c) == [i \in DOMAIN c |-> i]
PosList(A, n) == /\ Len(A) >= 1 /\ Distinct(A) /\ \A i \in DOMAIN A : A[i] \in 1..n
MefOK(c, L) == /\ \A i \in Range(L) : c[i][1] \in MefChans
               /\ \A m \in MefChans : \E i \in DOMAIN c : c[i][1] = m
St(c, r, o) == [cols |-> c, rows |-> r, res |-> o]
Apply(op, A, c, r) ==
  CASE op = "pick"    -> St(PickF(c, A), r, "ok")
    [] op = "slicec"  -> St(SliceF(c, A[1], A[2]), r, "ok")
    [] op = "rows"    -> St(c, RowsF(r, A[1]), "ok")
    [] op = "rfi"     -> St(ConvF(c, A, 1), r, "ok")
    [] op = "rfi_all" -> St(ConvF(c, AllPos(c), 1), r, "ok")
    [] op = "mef"     -> IF MefOK(c, A) THEN St(ConvF(c, A, 2), r, "ok") ELSE St(c, r, "err")
    [] op = "hl"      -> St(c, GateF(c, r, A), "ok")
    [] op = "hl_all"  -> St(c, GateF(c, r, AllPos(c)), "ok")
    [] op = "se"      -> IF A[1] + A[2] > Len(r) THEN St(c, r, "err") ELSE St(c, SubSeq(r, A[1] + 1, Len(r) - A[2]), "ok")
    [] op = "dup"     -> St(c, r, "ok")
(* what the user is assumed to respect (the documentation's order of work): *)
Pre(op, A, c, r) ==
  CASE op = "pick"    -> PosList(A, Len(c))
    [] op = "slicec"  -> Len(A) = 2 /\ 0 <= A[1] /\ A[1] < A[2] /\ A[2] <= Len(c)
    [] op = "rows"    -> Len(A) = 1 /\ A[1] \in 1..6 /\ Len(r) >= 2 /\ Len(RowsF(r, A[1])) >= 1
    [] op = "rfi"     -> PosList(A, Len(c)) /\ \A i \in Range(A) : c[i][2] = 0
    [] op = "rfi_all" -> \A i \in DOMAIN c : c[i][2] = 0
    [] op = "mef"     -> PosList(A, Len(c)) /\ \A i \in Range(A) : c[i][2] = 1
    [] op = "hl"      -> PosList(A, Len(c))
    [] op = "hl_all"  -> TRUE
    [] op = "se"      -> Len(A) = 2 /\ A[1] >= 0 /\ A[2] >= 0
    [] op = "dup"     -> Len(A) = 1 /\ A[1] \in 1..4
    [] OTHER          -> FALSE
ApplyAgrees == [][hist' # hist => LET h == hist'[Len(hist')] IN
                     /\ Pre(h[1], h[2], cols, rows)
                     /\ St(cols', rows', res') = Apply(h[1], h[2], cols, rows)]_vars

(* ---- what TLC checks about the composition ------------------------------------ *)
TypeOK == /\ cols \in Seq((1..NCh) \X (0..2)) /\ rows \in Seq(1..NEv) /\ res \in {"ok", "err"}
ColsDistinct == Distinct([i \in DOMAIN cols |-> cols[i][1]])
RowsDistinct == Distinct(rows)
MefOnlyCalibrated == \A i \in DOMAIN cols : cols[i][2] = 2 => cols[i][1] \in MefChans
NeverEmpty == Len(cols) >= 1
UnitOf(c, ch) == IF \E i \in DOMAIN c : c[i][1] = ch THEN (CHOOSE u \in 0..2 : \E i \in DOMAIN c : c[i] = <<ch, u>>) ELSE -1
(* a channel still present never goes back to earlier units *)
UnitsMonotone == [][\A ch \in 1..NCh : UnitOf(cols', ch) >= 0 => UnitOf(cols', ch) >= UnitOf(cols, ch)]_vars
(* a refused step leaves the sample as it was *)
ErrFrame == [][res' = "err" => cols' = cols /\ rows' = rows]_vars
(* gates and row operations never invent events; conversions and column operations never touch them *)
RowsShrink == [][Range(rows') \subseteq Range(rows)]_vars
ConvKeepsRows == [][hist' # hist /\ hist'[Len(hist')][1] \in {"pick", "slicec", "rfi", "rfi_all", "mef", "dup"} => rows' = rows]_vars
(* saturation gating commutes with unit conversion, and is idempotent, in every reachable state *)
GateCommutes ==
  \A L \in ChanArgs(Len(cols)), G \in ChanArgs(Len(cols)) :
     (\A i \in Range(L) : cols[i][2] = 0) => GateF(ConvF(cols, L, 1), rows, G) = GateF(cols, rows, G)
GateIdempotent ==
  \A G \in ChanArgs(Len(cols)) : GateF(cols, GateF(cols, rows, G), G) = GateF(cols, rows, G)
(* gating several channels = gating them one after another in any order *)
GateSequential ==
  \A G \in ChanArgs(Len(cols)) : Len(G) = 2 =>
     GateF(cols, rows, G) = GateF(cols, GateF(cols, rows, <<G[1]>>), <<G[2]>>)
=============================================================================
