---------------------------- MODULE Selection ----------------------------
(* mef.selection_std on the linear scale with explicit thresholds, as an exact   *)
(* decision rule over integer populations:                                       *)
(*   selected(p)  <=>  mean - k*sd > low  /\  mean + k*sd < high                 *)
(* with k = 5/2 and sd the population standard deviation, never below 1/200.     *)
(* sd is irrational in general, so each half is decided on squares:              *)
(*   mean - low > k sd  <=>  mean - low > 0  /\  (mean - low)^2 > k^2 var        *)
(* Populations: sequences of small integers; low/high integers.  A comparison    *)
(* that holds with EQUALITY is marked "tie" (floating point may go either way)   *)
(* and such scenarios are not judged.                                            *)
(* The discrete fragment of fit_beads_autofluorescence: fewer than three points  *)
(* or lists of different lengths are refused.                                    *)
EXTENDS Integers, Sequences, FiniteSets
RECURSIVE Sum(_)
Sum(s) == IF s = <<>> THEN 0 ELSE Head(s) + Sum(Tail(s))
RECURSIVE SumSq(_)
SumSq(s) == IF s = <<>> THEN 0 ELSE Head(s) * Head(s) + SumSq(Tail(s))

(* everything scaled by N (mean) and N^2 (variance) to stay in integers:          *)
(*   M = N*mean = Sum,  V = N^2*var = N*SumSq - Sum^2                              *)
(* k^2 = 25/4 ; minimal sd 1/200 -> minimal variance 1/40000                       *)
Side(p, lim, upper) ==            \* "in", "out" or "tie" for one threshold
  LET N == Len(p)  M == Sum(p)  V0 == N * SumSq(p) - M * M
      \* effective variance * N^2 * 40000 (so that the 1/40000 floor is an integer)
      V == IF 40000 * V0 < N * N THEN N * N ELSE 40000 * V0
      D == IF upper THEN lim * N - M ELSE M - lim * N          \* N * distance of the mean from the threshold, inwards
      lhs == 4 * 40000 * D * D                                   \* (N d)^2 * 4 * 40000
      rhs == 25 * V                                              \* k^2 * var * N^2 * 4 * 40000 / 4 ... both sides x 4
  IN IF D <= 0 THEN "out" ELSE IF lhs > rhs THEN "in" ELSE IF lhs = rhs THEN "tie" ELSE "out"

Selected(p, low, high) ==
  LET a == Side(p, low, FALSE)  b == Side(p, high, TRUE) IN
  IF a = "out" \/ b = "out" THEN "no" ELSE IF a = "tie" \/ b = "tie" THEN "tie" ELSE "yes"

FitRefuses(nrfi, nmef) == nrfi # nmef \/ nrfi <= 2
=============================================================================
