---------------------------- MODULE Gen_C02 ----------------------------
(* GEN for the Select and Fit preconditions of the calibration (C02): all lists   *)
(* of 1..2 populations with 1..3 integer events each, thresholds low/high.         *)
EXTENDS Selection, TLC
VARIABLES stage, scn, out
vars == <<stage, scn, out>>
Vals == {0, 1, 5, 9, 10}
Pops2 == {<<5>>, <<0, 0>>, <<9, 10, 10>>}
Pops == UNION {[1..n -> Vals] : n \in 1..3}
Init == stage = 0 /\ scn = <<>> /\ out = <<>>
Pick(n, S) == stage = n /\ \E x \in S : scn' = Append(scn, x) /\ stage' = n + 1 /\ UNCHANGED out
Next == \/ Pick(0, Pops) \/ Pick(1, Pops2) \/ Pick(2, {-1, 0, 1}) \/ Pick(3, {9, 10, 12})
        \/ stage = 4 /\ out' = <<Selected(scn[1], scn[3], scn[4]), Selected(scn[2], scn[3], scn[4])>> /\ stage' = 100 /\ UNCHANGED scn
Spec == Init /\ [][Next]_vars
Done == stage = 100
(* a population strictly inside tighter thresholds is selected for looser ones *)
ConstantInsideSelected == Done => \A i \in 1..2 :
   ((\A j \in 1..Len(scn[i]) : scn[i][j] = scn[i][1]) /\ scn[i][1] > scn[3] + 1 /\ scn[i][1] < scn[4] - 1) => out[i] = "yes"
OutsideNeverSelected == Done => \A i \in 1..2 : ((\A j \in 1..Len(scn[i]) : scn[i][j] <= scn[3]) => out[i] = "no")
=============================================================================
