---------------------------- MODULE Gen_C17 ----------------------------
(* GEN for C17: the keyword-presence lattice.  Environment actions choose the    *)
(* state of one keyword each (so TLC's workers share the product); the last      *)
(* action computes the expected attributes.  Every state with stage = "done" is  *)
(* one file to load.                                                             *)
EXTENDS FCSMeta, TLC
CONSTANTS Group
VARIABLES stage, scn, out

vars == <<stage, scn, out>>

Well(v, f) == KW("well", v, f)
Ill(v) == KW("ill", v, <<>>)

(* Group "timing"   : small sets everywhere (quick)                                *)
(*       "timing-a" : every time-step / tick / time-channel state x few clock states *)
(*       "timing-b" : every clock / date state x few time-step states                *)
StepsFull == {Absent, Well("dec", <<3, 100>>), Well("int", <<1, 1>>), Well("dec", <<25, 1000>>), Well("int", <<0, 1>>),
              Ill("alpha"), Ill("blank"), Ill("comma")}
StepsFew == {Absent, Well("dec", <<3, 100>>), Well("int", <<0, 1>>), Ill("alpha")}       \* a zero step is a step
TicksFull == {Absent, Well("int", <<100, 1>>), Well("dec", <<5, 10>>), Well("int", <<0, 1>>), Ill("alpha")}
TicksFew == {Absent, Well("int", <<100, 1>>)}
TimesFull(h) ==
       {Absent, Well("hms", <<h, 5, 9>>), Well("hms60", <<h, 59, 59, 30>>), Well("hms60", <<h, 0, 1, 59>>),
        Well("hmscc", <<h, 30, 0, 7>>), Well("hmsc", <<h, 30, 0, 5>>),
        Well("hms", <<25, 0, 0>>), Well("hms", <<h, 61, 0>>), Well("hms60", <<h, 0, 0, 75>>),
        Ill("two-fields"), Ill("alpha"), Ill("tt-alpha"), Ill("tt-inf"), Ill("tt-huge"), Ill("tt-nan"), Ill("five-fields"), Ill("blank")}
TimesFew(h) == {Absent, Well("hms", <<h, 5, 9>>), Well("hms60", <<h, 59, 59, 30>>), Well("hmscc", <<h, 30, 0, 7>>), Well("hmsc", <<h, 30, 0, 5>>),
                Ill("tt-alpha"), Ill("tt-inf")}
DatesFull ==
       {Absent, Well("dby", <<3, 2, 15>>), Well("dby", <<15, 1, 1>>), Well("dby", <<29, 2, 99>>),
        Well("dbY", <<3, 2, 2015>>), Well("dbY", <<29, 2, 2016>>), Well("dbY", <<32, 1, 2015>>),
        Well("ybd", <<99, 12, 31>>), Well("ybd", <<68, 3, 1>>), Well("Ybd", <<2015, 6, 30>>),
        Ill("slashes"), Ill("badmonth"), Ill("blank")}
DatesFew == {Absent, Well("dbY", <<3, 2, 2015>>), Well("ybd", <<99, 12, 31>>), Well("dby", <<3, 2, 15>>), Ill("slashes")}
Steps == IF Group = "timing-a" THEN StepsFull ELSE StepsFew
Ticks == IF Group = "timing-a" THEN TicksFull ELSE TicksFew
Times(h) == IF Group = "timing-b" THEN TimesFull(h) ELSE TimesFew(h)
Dates == IF Group = "timing-b" THEN DatesFull ELSE DatesFew
TimeChannels == IF Group = "timing-a" THEN {"none", "Time", "TIME", "time"} ELSE {"none", "Time"}
Versions == IF Group = "timing-a" THEN {"2.0", "3.1"} ELSE {"3.0"}
IsTiming == Group \in {"timing", "timing-a", "timing-b"}

Volts == {Absent, Well("int", <<250, 1>>), Well("dec", <<4505, 10>>), Ill("alpha"), Ill("blank")}
Creators == {"none", "cellquest", "flowjo", "other"}
Words == {Absent, Well("int", <<601, 1>>), Ill("alpha")}
Gains == {Absent, Well("dec", <<25, 10>>), Ill("alpha")}
Cyteks == {Absent, Well("dec", <<15, 10>>), Ill("alpha")}
Labels == {Absent, Well("text", <<7>>)}
Amps == {<< <<0, 1>>, <<0, 1>> >>, << <<4, 1>>, <<1, 1>> >>, << <<4, 1>>, <<0, 1>> >>, << <<25, 10>>, <<5, 10>> >>}
Ranges == {1024, 262144, 1000}
Chans == {1, 2, 10, 12}

Init == stage = 0 /\ scn = <<>> /\ out = <<>>

Pick(n, S) == stage = n /\ \E x \in S : scn' = Append(scn, x) /\ stage' = n + 1 /\ UNCHANGED out

TimingNext ==
  \/ Pick(0, Steps) \/ Pick(1, Ticks) \/ Pick(2, Times(10)) \/ Pick(3, Times(11)) \/ Pick(4, Dates)
  \/ Pick(5, TimeChannels) \/ Pick(6, Versions)
  \/ /\ stage = 7
     /\ LET ts == TimeStep(scn[1], scn[2])
            d  == ParseDate(scn[5])
            st == Stamp(d, ParseTime(scn[3]))
            en == Stamp(d, ParseTime(scn[4]))
            tch == IF scn[6] = "none" THEN <<>> ELSE <<7, 507>>      \* first / last value of the time channel
        IN out' = [time_step |-> ts, start |-> st, end |-> en, acq |-> AcqTime(tch, ts, st, en)]
     /\ stage' = 100 /\ UNCHANGED scn

DetectorNext ==
  \/ Pick(0, Chans) \/ Pick(1, Creators) \/ Pick(2, Volts) \/ Pick(3, Words) \/ Pick(4, Gains) \/ Pick(5, Cyteks)
  \/ /\ stage = 6
     /\ out' = [volt |-> Voltage(scn[3], scn[2], scn[4]), gain |-> Gain(scn[5], scn[2], scn[6])]
     /\ stage' = 100 /\ UNCHANGED scn

(* how the two numbers of $PnE are written: "4,0" / "4.0,0.0" / "4.00,0.00" / " 4, 0" are the same numbers *)
NumStyles == {"plain", "decimal", "padded", "spaced"}
ChannelNext ==
  \/ Pick(0, Chans) \/ Pick(1, Labels) \/ Pick(2, Amps) \/ Pick(3, Ranges) \/ Pick(4, NumStyles)
  \/ /\ stage = 5
     /\ out' = [label |-> Label(scn[2]), amp |-> AmpType(scn[3][1], scn[3][2]), rng |-> RangeOf(scn[4]), res |-> scn[4]]
     /\ stage' = 100 /\ UNCHANGED scn

Next == CASE IsTiming -> TimingNext [] Group = "detector" -> DetectorNext [] OTHER -> ChannelNext
Spec == Init /\ [][Next]_vars

(* decision-table invariants *)
Done == stage = 100
IllMeansAbsent ==
  (Done /\ IsTiming) =>
     /\ (scn[1].s = "ill" => out.time_step = NoneAttr)
     /\ (scn[3].s # "well" => out.start = NoStamp) /\ (scn[4].s # "well" => out.end = NoStamp)
     /\ (scn[5].s # "well" => out.start.date = <<>>)
Precedence ==
  (Done /\ IsTiming) =>
     /\ (scn[6] # "none" /\ out.time_step # NoneAttr => out.acq.k = "channel")
     /\ ((scn[6] = "none" \/ out.time_step = NoneAttr) /\ out.start # NoStamp /\ out.end # NoStamp => out.acq.k = "clock")
     /\ (out.acq.k = "none" <=> ((scn[6] = "none" \/ out.time_step = NoneAttr) /\ (out.start = NoStamp \/ out.end = NoStamp)))
StandardWins ==
  (Done /\ Group = "detector") =>
     /\ (scn[3].s = "well" => out.volt = <<scn[3].f[1], scn[3].f[2]>>)
     /\ (scn[3].s = "absent" /\ scn[2] # "cellquest" => out.volt = NoneAttr)
     /\ (scn[5].s = "absent" /\ scn[2] # "flowjo" => out.gain = NoneAttr)
=============================================================================
