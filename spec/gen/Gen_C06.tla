---------------------------- MODULE Gen_C06 ----------------------------
(* GEN for C06: to_mef pairing.  Three columns; curve i is the i-th function of  *)
(* sc_list and belongs to the i-th entry of sc_channels.                         *)
EXTENDS Units, TLC
VARIABLES stage, scn, out
vars == <<stage, scn, out>>
C == 3
Containers == {"sample", "array", "partial", "sample-dupname"}   \* partial: the callable built like get_transform_fxn does
Unnamed == {"array", "sample-dupname"}     \* -dupname: a sample in which two columns carry one name (FCS allows it; a channel list
                                          \* naming a channel twice makes one): columns are told apart by position only
Perms == {<<1>>, <<2>>, <<3>>, <<1, 2>>, <<2, 1>>, <<1, 3>>, <<3, 1>>, <<2, 3>>, <<3, 2>>,
          <<1, 2, 3>>, <<1, 3, 2>>, <<2, 1, 3>>, <<2, 3, 1>>, <<3, 1, 2>>, <<3, 2, 1>>}
ChF(t, cols, named) == [t |-> t, cols |-> cols, named |-> named]
Names(p) == [j \in 1..Len(p) |-> 1]
Poss(p) == [j \in 1..Len(p) |-> 0]
Mixed(p) == [j \in 1..Len(p) |-> j % 2]
Negs(p) == [j \in 1..Len(p) |-> 2]            \* positions counted from the end (other form: refused or converted correctly)
NegMixed(p) == [j \in 1..Len(p) |-> IF j = Len(p) THEN 2 ELSE 0]
ScForms == {ChF("none", <<>>, <<>>)} \cup UNION {{ChF("list", p, sp) : sp \in {Names(p), Poss(p), Negs(p), NegMixed(p)}} : p \in Perms}
ReqForms == {ChF("none", <<>>, <<>>)} \cup {ChF("scalar", <<c>>, <<n>>) : c \in 1..C, n \in {0, 1, 2}}
            \cup UNION {{ChF("list", p, sp) : sp \in {Names(p), Poss(p), Mixed(p), Negs(p)}} : p \in Perms}
Named(f) == \E j \in 1..Len(f.named) : f.named[j] = 1

Init == stage = 0 /\ scn = <<>> /\ out = <<>>
Pick(n, S) == stage = n /\ \E x \in S : scn' = Append(scn, x) /\ stage' = n + 1 /\ UNCHANGED out
NSc == IF scn[2].t = "none" THEN C ELSE Len(scn[2].cols)
Next ==
  \/ Pick(0, Containers)
  \/ stage = 1 /\ \E f \in ScForms : (Named(f) => scn[1] \notin Unnamed) /\ (scn[1] = "partial" => f.t = "list" /\ Named(f))
                                     /\ scn' = Append(scn, f) /\ stage' = 2 /\ UNCHANGED out
  \/ stage = 2 /\ \E d \in {-1, 0, 1} : NSc + d >= 1 /\ scn' = Append(scn, NSc + d) /\ stage' = 3 /\ UNCHANGED out   \* number of curves supplied
  \/ stage = 3 /\ \E f \in ReqForms : (Named(f) => scn[1] \notin Unnamed) /\ scn' = Append(scn, f) /\ stage' = 4 /\ UNCHANGED out
  \/ /\ stage = 4
     /\ out' = ToMEF(scn[4], scn[3], IF scn[2].t = "none" THEN NoVal ELSE scn[2].cols, C)
     /\ stage' = 100 /\ UNCHANGED scn
Spec == Init /\ [][Next]_vars
Done == stage = 100

OwnCurve == (Done /\ out.k = "ok") =>
   \A c \in 1..C : out.terms[c] # <<>> =>
       LET sc == IF scn[2].t = "none" THEN <<1, 2, 3>> ELSE scn[2].cols IN sc[out.terms[c][1].id] = c
UncoveredRefused == Done =>
   LET sc == IF scn[2].t = "none" THEN <<1, 2, 3>> ELSE scn[2].cols
       req == IF scn[4].t = "none" THEN sc ELSE scn[4].cols
   IN (\E j \in 1..Len(req) : \A i \in 1..Len(sc) : sc[i] # req[j]) => out.k = "refused"
CountMismatchRefused == Done => (scn[3] # NSc => out.k = "refused")
PairingOrderIrrelevant ==   \* the curve a column gets depends only on the (curve, channel) pairs, not on listing order
  (Done /\ out.k = "ok") => \A c \in 1..C : Len(out.terms[c]) <= 1
=============================================================================
