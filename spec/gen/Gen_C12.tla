---------------------------- MODULE Gen_C12 ----------------------------
(* GEN for C12: event matrices x container x channel form; the final action      *)
(* computes every statistic of every requested channel.                          *)
EXTENDS Stats, TLC
CONSTANTS MaxN, Wide, Four        \* Four: a 4-channel sample (columns 3 and 4 derived) with longer channel lists
VARIABLES stage, scn, out
vars == <<stage, scn, out>>

Vals == IF Wide THEN {3, 40000, 65535} ELSE {1, 2, 4}
Cols == UNION {[1..n -> Vals] : n \in 1..MaxN}
(* signed data (compensated / background-subtracted readings): the FIRST column holds the negated values, so its mean, *)
(* median and coefficient of variation are negative; geometric statistics are not defined there                         *)
Signed == {"array-float-signed", "sample-float32-signed"}
Neg(c) == [i \in 1..Len(c) |-> 0 - c[i]]
Containers == {"array-int", "array-float", "array-float-F", "sample-int", "sample-rfi", "sample-rfi-F", "sample-float32", "sample-double-used"}   \* -F: column-major buffer; -used: see the driver
                \cup (IF Wide THEN {} ELSE {"array-int8", "sample-int8"})      \* 8-bit storage holds the small alphabet only
                \cup Signed
Form(t, xs, named) == [t |-> t, xs |-> xs, named |-> named]
Forms == {Form("absent", <<>>, <<>>), Form("pos", <<0>>, <<0>>), Form("pos", <<1>>, <<0>>), Form("name", <<1>>, <<1>>),
          Form("list", <<0, 1>>, <<0, 0>>), Form("list", <<1, 0>>, <<1, 0>>), Form("list", <<1>>, <<1>>),
          Form("list", <<0>>, <<0>>), Form("list", <<1, 1>>, <<0, 1>>),
          \* named = 2: the position written as a NEGATIVE index (counted from the last channel)
          Form("pos", <<1>>, <<2>>), Form("list", <<0, 1>>, <<0, 2>>), Form("list", <<1, 0>>, <<2, 2>>), Form("list", <<0>>, <<2>>)}
Forms4 == {Form("list", <<0, 2, 1, 3>>, <<0, 0, 0, 0>>), Form("list", <<0, 2, 1, 3>>, <<1, 1, 1, 1>>), Form("list", <<1, 1, 3>>, <<0, 1, 0>>),
           Form("list", <<3, 0>>, <<0, 1>>), Form("list", <<2, 3, 1>>, <<1, 0, 0>>), Form("list", <<0, 1, 2, 3>>, <<0, 0, 0, 0>>),
           Form("list", <<3, 2, 1, 0>>, <<0, 0, 1, 1>>), Form("absent", <<>>, <<>>), Form("pos", <<2>>, <<0>>), Form("name", <<3>>, <<1>>),
           Form("list", <<0, 3>>, <<0, 2>>), Form("list", <<3, 1, 0>>, <<2, 2, 2>>), Form("pos", <<0>>, <<2>>)}
Col3(c) == [i \in 1..Len(c) |-> c[Len(c) + 1 - i]]                   \* column 3: column 1 reversed
Col4(c) == [i \in 1..Len(c) |-> IF i = 1 THEN 4 ELSE 2]             \* column 4: fixed pattern
NeedsNames(f) == \E i \in 1..Len(f.named) : f.named[i] = 1

Init == stage = 0 /\ scn = <<>> /\ out = <<>>
Pick(n, S) == stage = n /\ \E x \in S : scn' = Append(scn, x) /\ stage' = n + 1 /\ UNCHANGED out
Next ==
  \/ Pick(0, Cols)
  \/ stage = 1 /\ \E y \in {c \in Cols : Len(c) = Len(scn[1])} : scn' = Append(scn, y) /\ stage' = 2 /\ UNCHANGED out
  \/ Pick(2, Containers)
  \/ stage = 3 /\ \E f \in (IF Four THEN Forms4 ELSE Forms) : (NeedsNames(f) => scn[3] \notin {"array-int", "array-float", "array-float-F", "array-int8", "array-float-signed"})
                                   /\ scn' = Append(scn, f) /\ stage' = 4 /\ UNCHANGED out
  \/ /\ stage = 4
     /\ LET req == Requested(scn[4], IF Four THEN 4 ELSE 2)
            first == IF scn[3] \in Signed THEN Neg(scn[1]) ELSE scn[1]
            col(c) == CASE c = 0 -> first [] c = 1 -> scn[2] [] c = 2 -> Col3(first) [] OTHER -> Col4(scn[2])
        IN out' = [scalar |-> ScalarResult(scn[4]),
                   per |-> [j \in 1..Len(req) |-> ColStats(col(req[j]), Wide)]]
     /\ stage' = 100 /\ UNCHANGED scn
Spec == Init /\ [][Next]_vars

Done == stage = 100
(* identities of the definitions themselves *)
ModeIsMostFrequent == Done => \A j \in 1..Len(out.per) : out.per[j].modes # {}
MedianBetween == (Done /\ ~Four /\ scn[3] \notin Signed) => \A j \in 1..Len(out.per) :
   LET m == out.per[j].median  c == IF Requested(scn[4], 2)[j] = 0 THEN scn[1] ELSE scn[2] IN
   \A i \in 1..Len(c) : \E k \in 1..Len(c) : c[k] * m[2] <= m[1] /\ \E k2 \in 1..Len(c) : c[k2] * m[2] >= m[1]
VarNonNeg == (Done /\ ~Wide) => \A j \in 1..Len(out.per) : out.per[j].var[1] >= 0
IqrNonNeg == Done => \A j \in 1..Len(out.per) : out.per[j].iqr[1] >= 0
=============================================================================
