---------------------------- MODULE Gen_C12 ----------------------------
(* GEN for C12: event matrices x container x channel form; the final action      *)
(* computes every statistic of every requested channel.                          *)
EXTENDS Stats, TLC
CONSTANTS MaxN, Wide
VARIABLES stage, scn, out
vars == <<stage, scn, out>>

Vals == IF Wide THEN {3, 40000, 65535} ELSE {1, 2, 4}
Cols == UNION {[1..n -> Vals] : n \in 1..MaxN}
Containers == {"array-int", "array-float", "sample-int", "sample-rfi", "sample-float32"}
Form(t, xs, named) == [t |-> t, xs |-> xs, named |-> named]
Forms == {Form("absent", <<>>, <<>>), Form("pos", <<0>>, <<0>>), Form("pos", <<1>>, <<0>>), Form("name", <<1>>, <<1>>),
          Form("list", <<0, 1>>, <<0, 0>>), Form("list", <<1, 0>>, <<1, 0>>), Form("list", <<1>>, <<1>>),
          Form("list", <<0>>, <<0>>), Form("list", <<1, 1>>, <<0, 1>>)}
NeedsNames(f) == \E i \in 1..Len(f.named) : f.named[i] = 1

Init == stage = 0 /\ scn = <<>> /\ out = <<>>
Pick(n, S) == stage = n /\ \E x \in S : scn' = Append(scn, x) /\ stage' = n + 1 /\ UNCHANGED out
Next ==
  \/ Pick(0, Cols)
  \/ stage = 1 /\ \E y \in {c \in Cols : Len(c) = Len(scn[1])} : scn' = Append(scn, y) /\ stage' = 2 /\ UNCHANGED out
  \/ Pick(2, Containers)
  \/ stage = 3 /\ \E f \in Forms : (NeedsNames(f) => scn[3] \notin {"array-int", "array-float"})
                                   /\ scn' = Append(scn, f) /\ stage' = 4 /\ UNCHANGED out
  \/ /\ stage = 4
     /\ LET req == Requested(scn[4], 2)
            col(c) == IF c = 0 THEN scn[1] ELSE scn[2]
        IN out' = [scalar |-> ScalarResult(scn[4]),
                   per |-> [j \in 1..Len(req) |-> ColStats(col(req[j]), Wide)]]
     /\ stage' = 100 /\ UNCHANGED scn
Spec == Init /\ [][Next]_vars

Done == stage = 100
(* identities of the definitions themselves *)
ModeIsMostFrequent == Done => \A j \in 1..Len(out.per) : out.per[j].modes # {}
MedianBetween == Done => \A j \in 1..Len(out.per) :
   LET m == out.per[j].median  c == IF Requested(scn[4], 2)[j] = 0 THEN scn[1] ELSE scn[2] IN
   \A i \in 1..Len(c) : \E k \in 1..Len(c) : c[k] * m[2] <= m[1] /\ \E k2 \in 1..Len(c) : c[k2] * m[2] >= m[1]
VarNonNeg == (Done /\ ~Wide) => \A j \in 1..Len(out.per) : out.per[j].var[1] >= 0
IqrNonNeg == Done => \A j \in 1..Len(out.per) : out.per[j].iqr[1] >= 0
=============================================================================
