---------------------------- MODULE Gen_C08 ----------------------------
(* GEN for C08: environment actions choose the gate, the events, the container   *)
(* and the parameters; the last action computes the documented mask.             *)
EXTENDS Gates, TLC
CONSTANTS Gate, MaxN
VARIABLES stage, scn, out
vars == <<stage, scn, out>>

Init == stage = 0 /\ scn = <<>> /\ out = <<>>
Pick(n, S) == stage = n /\ \E x \in S : scn' = Append(scn, x) /\ stage' = n + 1 /\ UNCHANGED out
Finish(n, v) == stage = n /\ out' = v /\ stage' = 100 /\ UNCHANGED scn

Containers == {"array-int", "array-uint", "array-float", "sample", "sample-float-be"}     \* -be: single-precision file, big-endian
(* ---- start_end: scn = <<N, container, ns, ne>> *)
SENext == \/ Pick(0, 0..4) \/ Pick(1, Containers) \/ Pick(2, -1..5) \/ Pick(3, -1..5)
          \/ Finish(4, StartEnd(scn[1], scn[3], scn[4]))

(* ---- high_low: 2 channels with range [0,7]; scn = <<events, container, chform, hi, lo>> *)
HLVals == {0, 1, 5, 7, NANV}          \* NANV only materialises in floating-point containers (the driver skips it elsewhere)
HLEvents == UNION {[1..n -> [1..2 -> HLVals]] : n \in 0..MaxN}
ChForm(t, xs, named) == [t |-> t, xs |-> xs, named |-> named]
(* named[i] = 2: the position is written as a NEGATIVE index (counted from the last channel) *)
HLForms == {ChForm("absent", <<1, 2>>, <<0, 0>>), ChForm("pos", <<1>>, <<0>>), ChForm("name", <<2>>, <<1>>),
            ChForm("list", <<1, 2>>, <<0, 0>>), ChForm("list", <<2>>, <<1>>), ChForm("list", <<2, 1>>, <<1, 0>>),
            ChForm("pos", <<2>>, <<2>>), ChForm("pos", <<1>>, <<2>>), ChForm("list", <<2, 1>>, <<2, 0>>)}
Named(f) == \E i \in 1..Len(f.named) : f.named[i] = 1
HLNext == \/ Pick(0, HLEvents) \/ Pick(1, Containers)
          \/ stage = 2 /\ \E f \in HLForms : (Named(f) => scn[2] \in {"sample", "sample-float-be"}) /\ scn' = Append(scn, f) /\ stage' = 3 /\ UNCHANGED out
          \/ Pick(3, {NONE, 5, 7}) \/ Pick(4, {NONE, 0, 1})
          \/ Finish(5, HighLow(scn[1], scn[3].xs, scn[4], scn[5], scn[2] \in {"sample", "sample-float-be"}, <<<<0, 7>>, <<0, 7>>>>))

(* ---- ellipse: 3 channels; scn = <<events, container, chform, <<cx, cy, a, b>>>> *)
ELPts == {<<x, y, 3>> : x \in {1, 2, 3, 4, 5, 7}, y \in {1, 2, 3, 4, 5}}
ELEvents == UNION {[1..n -> ELPts] : n \in 0..MaxN}
ELForms == {ChForm("list", <<1, 2>>, <<0, 0>>), ChForm("list", <<2, 1>>, <<1, 0>>), ChForm("list", <<1, 2>>, <<1, 1>>),
            ChForm("list", <<1>>, <<0>>), ChForm("list", <<1, 2, 3>>, <<0, 0, 0>>), ChForm("list", <<1, 2>>, <<2, 2>>)}
ELParams == {<<3, 3, 2, 1>>, <<3, 3, 1, 2>>, <<3, 3, 2, 2>>, <<4, 2, 4, 1>>, <<3, 3, 1, 1>>, <<3, 3, 16, 2>>, <<2, 3, 1, 256>>}   \* incl. axes whose squares exceed 8 / 16 bits
ELNext == \/ Pick(0, ELEvents) \/ Pick(1, Containers)
          \/ stage = 2 /\ \E f \in ELForms : (Named(f) => scn[2] \in {"sample", "sample-float-be"}) /\ scn' = Append(scn, f) /\ stage' = 3 /\ UNCHANGED out
          \/ Pick(3, ELParams)
          \/ Finish(4, EllipseAxis(scn[1], scn[3].xs, scn[4][1], scn[4][2], scn[4][3], scn[4][4]))

(* ---- ellipse in log10 space: coordinates by exponent (UNDEF = a zero or negative value); scn as for ellipse *)
LGCodes == {UNDEF, 0, 1, 2, 3}
LGPts == {<<x, y, 1>> : x \in LGCodes, y \in LGCodes}
LGEvents == UNION {[1..n -> LGPts] : n \in 0..MaxN}
LGParams == {<<2, 1, 2, 1>>, <<1, 1, 1, 1>>, <<2, 2, 2, 2>>, <<1, 2, 1, 2>>, <<3, 0, 1, 1>>}
LGNext == \/ Pick(0, LGEvents) \/ Pick(1, {"array-int", "array-float", "sample", "sample-float-be"})
          \/ stage = 2 /\ \E f \in ELForms : (Named(f) => scn[2] \in {"sample", "sample-float-be"}) /\ scn' = Append(scn, f) /\ stage' = 3 /\ UNCHANGED out
          \/ Pick(3, LGParams)
          \/ Finish(4, EllipseLog(scn[1], scn[3].xs, scn[4][1], scn[4][2], scn[4][3], scn[4][4]))

Next == CASE Gate = "start_end" -> SENext [] Gate = "high_low" -> HLNext [] Gate = "ellipse_log" -> LGNext [] OTHER -> ELNext
Spec == Init /\ [][Next]_vars

Done == stage = 100
(* consequences of the definitions *)
MaskLength == (Done /\ out.k = "ok") =>
   Len(out.mask) = (IF Gate = "start_end" THEN scn[1] ELSE Len(scn[1]))
StartEndCount == (Done /\ Gate = "start_end" /\ out.k = "ok") =>
   LET kept == {i \in 1..Len(out.mask) : out.mask[i]}
       ns == IF scn[3] < 0 THEN 0 ELSE scn[3]  ne == IF scn[4] < 0 THEN 0 ELSE scn[4]
   IN kept = (ns + 1)..(scn[1] - ne)
HighLowMonotone == (Done /\ Gate = "high_low" /\ scn[4] = 5 /\ scn[5] = 1) =>
   \A i \in 1..Len(out.mask) : out.mask[i] => \A j \in 1..Len(scn[3].xs) : scn[1][i][scn[3].xs[j]] \in 2..6
UndefNeverInside == (Done /\ Gate = "ellipse_log" /\ out.k = "ok") =>
   \A i \in 1..Len(out.mask) : out.mask[i] => \A j \in 1..2 : scn[1][i][scn[3].xs[j]] # UNDEF
=============================================================================
