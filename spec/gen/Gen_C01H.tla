---------------------------- MODULE Gen_C01H ----------------------------
(* GEN for the HEADER segment alone (read_fcs_header_segment): six right-       *)
(* justified 8-character fields after the 10-character version; offsets of 1 to  *)
(* 8 digits (an 8-digit offset fills its field, so neighbouring fields touch),   *)
(* blank ANALYSIS fields.  Files large enough to need 8-digit offsets cannot be  *)
(* built byte by byte in TLC; the HEADER parser is a public function, so it is   *)
(* exercised directly with the 58 bytes the specification writes.                *)
EXTENDS FCSBytes, TLC
VARIABLES stage, scn, out
vars == <<stage, scn, out>>
Offsets1 == {0, 58, 1234567, 10000000, 99999999}
Offsets2 == {0, 4096, 10000000, 99999999}
AFields == {-1} \cup {0, 12345678}                 \* -1: the field is blank
Init == stage = 0 /\ scn = <<>> /\ out = <<>>
Pick(n, S) == stage = n /\ \E x \in S : scn' = Append(scn, x) /\ stage' = n + 1 /\ UNCHANGED out
Field(v) == IF v < 0 THEN Spaces(8) ELSE RJust(DigitsOf(v), 8)
HeaderBytes(s) == VerStr(s[1]) \o Spaces(4) \o Field(s[2]) \o Field(s[3]) \o Field(s[4]) \o Field(s[5]) \o Field(s[6]) \o Field(s[7])
Next == \/ Pick(0, {"2.0", "3.1"}) \/ Pick(1, Offsets1) \/ Pick(2, Offsets1) \/ Pick(3, Offsets2) \/ Pick(4, Offsets2)
        \/ Pick(5, AFields) \/ Pick(6, AFields)
        \/ /\ stage = 7
           /\ LET r == StepHeader(S0(HeaderBytes(scn), <<>>)) IN
              out' = IF r.pc = "Refused" THEN [k |-> "refused", f |-> HeaderBytes(scn), v |-> <<>>]
                     ELSE [k |-> "ok", f |-> HeaderBytes(scn), v |-> <<r.tb, r.te, r.db, r.de, r.ab, r.ae>>]
           /\ stage' = 100 /\ UNCHANGED scn
Spec == Init /\ [][Next]_vars
FieldsReadBack == stage = 100 =>
   out.k = "ok" /\ out.v = <<scn[2], scn[3], scn[4], scn[5], IF scn[6] < 0 THEN 0 ELSE scn[6], IF scn[7] < 0 THEN 0 ELSE scn[7]>>
=============================================================================
