---------------------------- MODULE Gen_C01 ----------------------------
(* GEN + MC for C01 (fault-free layouts) and C16 (faults).  One scenario per     *)
(* initial state; the bytes are written by the specification's own writer; a     *)
(* single Read step computes the outcome the real reader must produce.           *)
EXTENDS FCSBytes, TLC
CONSTANTS Slice            \* which family of scenarios this run enumerates
VARIABLES scn, file, out, cls

vars == <<scn, file, out, cls>>

LayN(ver, dt, mode, bo, widths, rk, N, off, endc, pad, ev, stext, an, nx) ==
  [ver |-> ver, dt |-> dt, mode |-> mode, bo |-> bo, widths |-> widths, rk |-> rk, N |-> N,
   off |-> off, endc |-> endc, pad |-> pad, ev |-> ev, stext |-> stext, an |-> an, nx |-> nx, order |-> "tda", onum |-> "zero", knum |-> "zero"]
DataFirst(l) == [l EXCEPT !.order = "dta"]
STextFirst(l) == [l EXCEPT !.order = "sta"]
LayA(ver, dt, mode, bo, widths, rk, N, off, endc, pad, ev, stext, an) ==
  LayN(ver, dt, mode, bo, widths, rk, N, off, endc, pad, ev, stext, an, 0)
Lay(ver, dt, mode, bo, widths, rk, N, off, endc, pad, ev, stext) ==
  LayA(ver, dt, mode, bo, widths, rk, N, off, endc, pad, ev, stext, "none")

W4 == {8, 16, 24, 32}
W8 == {8, 16, 24, 32, 40, 48, 56, 64}
RK3 == {"pow", "powm3", "np"}
Seq12(S) == {<<a>> : a \in S} \cup {<<a, b>> : a \in S, b \in S}

(* integer layouts, quick: reduced spellings/versions *)
IntLayouts(vers, bos, WS, RK, Ns, pads, evs) ==
  {Lay(v, "I", "L", bo, ws, rk, n, off, ec, pad, ev, FALSE) :
     v \in vers, bo \in bos, ws \in Seq12(WS), rk \in Seq12(RK), n \in Ns,
     off \in {"header", "text"}, ec \in {"last", "onepast"}, pad \in pads, ev \in evs}

WellFormedI(l) == Len(l.rk) = Len(l.widths) /\ (l.off = "text" => IsV3(l.ver))

AnalysisLayouts ==     \* an ANALYSIS segment after DATA, located through the HEADER or (3.x) through TEXT
  {LayN(v, dt, "L", "1234", ws, [p \in 1..Len(ws) |-> "pow"], n, off, ec, pad, "asc", st, an, nx) :
     v \in {"2.0", "3.0", "3.1"}, dt \in {"I", "F"}, ws \in {<<16, 16>>, <<32>>, <<8, 24>>}, n \in {0, 2},
     off \in {"header", "text"}, ec \in {"last", "onepast"}, pad \in {0, 3}, st \in BOOLEAN, an \in {"header", "text"},
     nx \in {0, 512}}
FloatLayouts ==
  {Lay(v, dt, "L", bo, ws, [p \in 1..Len(ws) |-> "pow"], n, off, ec, pad, "asc", st) :
     v \in {"2.0", "3.0", "3.1"}, dt \in {"F", "D"}, bo \in {"4321", "21", "1234", "12"},
     ws \in {<<32>>, <<32, 32>>, <<64>>, <<64, 64>>, <<32, 64>>}, n \in 0..2,
     off \in {"header", "text"}, ec \in {"last", "onepast"}, pad \in {0, 3}, st \in BOOLEAN}

Unsupported ==
  {Lay(v, dt, mode, bo, ws, [p \in 1..Len(ws) |-> "pow"], 2, "header", "last", 0, "asc", FALSE) :
     v \in {"2.0", "3.1"}, dt \in {"I", "F", "D", "A"}, mode \in {"L", "H"},
     bo \in {"4321", "21", "1234", "12", "3412", "1324", "4231", "2143", "4441"}, ws \in {<<16>>, <<12>>, <<16, 12>>, <<32, 32>>, <<64>>, <<16, 72>>}}

PatternLayouts ==
  {Lay("3.0", "I", "L", bo, ws, rk, 2, "header", "last", 0, ev, FALSE) :
     bo \in {"4321", "1234"}, ev \in {"zero", "ones", "hi", "lo", "asc", "alt"},
     ws \in {<<16, 16>>, <<24, 24>>, <<8, 24>>, <<16, 32>>, <<64>>, <<40, 56>>, <<48, 8>>},
     rk \in {<<"pow", "pow">>, <<"np", "powm3">>, <<"powm3", "np">>}}

Layouts ==
  CASE Slice = "int-quick" ->
         {l \in IntLayouts({"2.0", "3.1"}, {"4321", "12"}, W4, {"pow", "np"}, {0, 2}, {0}, {"asc"}) : WellFormedI(l)}
    [] Slice = "int-full" ->
         {l \in IntLayouts({"2.0", "3.0", "3.1"}, {"4321", "21", "1234", "12"}, W4, RK3, 0..2, {0, 3}, {"asc"}) : WellFormedI(l)}
    [] Slice = "int-wide" ->
         {l \in IntLayouts({"3.0"}, {"4321", "1234"}, W8, {"pow", "np"}, {2}, {0}, {"asc"}) : WellFormedI(l)}
    [] Slice = "int-odd" ->      \* ranges 2^(w-1)+1: smallest range needing all w bits
         {l \in IntLayouts({"3.0"}, {"4321", "1234"}, W8, {"odd"}, {2}, {0}, {"ones"}) : WellFormedI(l)}
    [] Slice = "float" -> FloatLayouts
    [] Slice = "analysis" -> {l \in AnalysisLayouts : (l.off = "text" \/ l.an = "text") => IsV3(l.ver)}
    [] Slice = "reordered" ->     \* DATA before TEXT: same contents, other segment order
         {DataFirst(l) : l \in {l \in IntLayouts({"2.0", "3.1"}, {"4321", "12"}, {8, 16, 24}, {"pow", "np"}, {0, 2}, {0, 3}, {"asc"}) : WellFormedI(l)}
                               \cup {l \in AnalysisLayouts : ((l.off = "text" \/ l.an = "text") => IsV3(l.ver)) /\ l.nx = 0 /\ l.pad = 3}}
         \cup {STextFirst(l) : l \in {l \in AnalysisLayouts : IsV3(l.ver) /\ l.stext /\ l.nx = 0 /\ l.widths # <<32>>}}
    [] Slice = "many-par" ->      \* ten and more parameters ($P10B sorts before $P2B as text), mixed widths
         {Lay(v, "I", "L", bo, ws, [p \in 1..Len(ws) |-> rk], 2, off, "last", 0, ev, FALSE) :
            v \in {"2.0", "3.1"}, bo \in {"4321", "1234"}, rk \in {"pow", "np"}, off \in {"header"}, ev \in {"asc", "ones"},
            ws \in {<<8, 16, 8, 16, 8, 16, 8, 16, 8, 16, 24>>, <<16, 16, 16, 16, 16, 16, 16, 16, 16, 32, 8, 8>>,
                    <<8, 8, 8, 8, 8, 8, 8, 8, 8, 8>>, <<32, 16, 8, 24, 16, 16, 8, 8, 16, 16, 40, 8, 16>>}}
    [] Slice = "offset-styles" ->  \* the TEXT offsets blank-padded instead of zero-padded
         {[l EXCEPT !.onum = st] : st \in {"right", "left"},
            l \in {l \in AnalysisLayouts : IsV3(l.ver) /\ l.nx = 0 /\ l.pad = 0 /\ l.widths # <<32>>}}
    [] Slice = "blank-numbers" ->  \* $PnB / $PnR written with blanks around the digits; widest parameters, ranges 2^(w-1)+1 and 2^w
         {[l EXCEPT !.knum = "blank"] :
            l \in {l \in IntLayouts({"3.0"}, {"4321", "1234"}, {16, 56, 64}, {"odd", "pow"}, {2}, {0}, {"ones"}) : WellFormedI(l)}}
    [] Slice = "unsupported" -> Unsupported
    [] Slice = "patterns" -> {l \in PatternLayouts : Len(l.rk) >= Len(l.widths)}
    [] OTHER -> {}

FixRk(l) == [l EXCEPT !.rk = SubSeq(l.rk, 1, Len(l.widths))]

(* ---- C16: files to damage, and the damage ---- *)
FaultLayouts ==
  LET q == { Lay("3.0", "I", "L", "1234", <<16, 16>>, <<"pow", "np">>, 2, "header", "last", 0, "asc", FALSE),
             Lay("3.1", "I", "L", "4321", <<8, 24>>, <<"pow", "pow">>, 2, "text", "onepast", 3, "asc", TRUE),
             Lay("2.0", "I", "L", "4321", <<8>>, <<"pow">>, 2, "header", "onepast", 0, "asc", FALSE),
             Lay("3.0", "F", "L", "1234", <<32>>, <<"pow">>, 1, "text", "last", 0, "asc", FALSE),
             Lay("3.1", "I", "L", "12", <<32, 32>>, <<"pow", "powm3">>, 1, "header", "last", 3, "asc", TRUE),
             Lay("2.0", "D", "L", "21", <<64>>, <<"pow">>, 1, "header", "last", 0, "asc", FALSE),
             LayA("3.0", "I", "L", "1234", <<16>>, <<"pow">>, 2, "header", "last", 0, "asc", FALSE, "header"),
             LayA("3.1", "I", "L", "4321", <<8, 8>>, <<"pow", "pow">>, 1, "text", "onepast", 3, "asc", TRUE, "text"),
             DataFirst(Lay("2.0", "I", "L", "4321", <<16, 16>>, <<"pow", "np">>, 2, "header", "last", 0, "asc", FALSE)),
             DataFirst(Lay("3.1", "I", "L", "1234", <<8, 16>>, <<"pow", "pow">>, 1, "text", "onepast", 3, "asc", TRUE)),
             DataFirst(Lay("3.0", "F", "L", "1234", <<32>>, <<"pow">>, 2, "header", "last", 0, "asc", FALSE)),
             STextFirst(Lay("3.1", "I", "L", "1234", <<16, 8>>, <<"pow", "pow">>, 1, "header", "last", 3, "asc", TRUE)) }
      more == { Lay(v, "I", "L", bo, ws, [p \in 1..Len(ws) |-> "pow"], n, off, ec, 0, "asc", st) :
                  v \in {"2.0", "3.1"}, bo \in {"4321", "1234"}, ws \in {<<8>>, <<16, 8>>, <<24>>, <<16, 32>>},
                  n \in {0, 1, 2}, off \in {"header", "text"}, ec \in {"last", "onepast"}, st \in {FALSE} }
  IN IF Slice = "faults-quick" THEN q ELSE q \cup {l \in more : l.off = "text" => IsV3(l.ver)}

Fields == {"tot", "par", "pnb1", "pnb2", "h_tb", "h_te", "h_db", "h_de", "t_db", "t_de"}
STextFields(l) == IF l.stext /\ IsV3(l.ver) THEN {"t_sb", "t_se"} ELSE {}       \* offsets of the supplemental TEXT segment
FaultsOf(l) ==
  {[k |-> "trunc", field |-> "-", how |-> "-", at |-> a] : a \in 0..(Len(Write(l, NoFault)) - 1)}
  \cup {[k |-> "empty", field |-> "-", how |-> "-", at |-> 0]}
  \cup {[k |-> "field", field |-> fd, how |-> h, at |-> 0] : fd \in Fields \cup STextFields(l), h \in {"m1", "p1", "half", "big"}}
  \cup (IF IsV3(l.ver) THEN {[k |-> "field", field |-> "h_tb", how |-> h, at |-> 0] : h \in {"kw1", "kw3", "kw5"}} ELSE {})
Pending == [k |-> "pending", field |-> "-", how |-> "-", at |-> 0]
FaultRun == Slice \in {"faults-quick", "faults-full"}

Scenarios == IF FaultRun THEN {[lay |-> l, flt |-> Pending] : l \in FaultLayouts}
             ELSE {[lay |-> FixRk(l), flt |-> NoFault] : l \in Layouts}


(* A single-field corruption of a GEOMETRY field ($TOT, $PAR, $PnB, DATA offsets) can produce a   *)
(* file whose declaration is consistent with itself under the very rule the property tolerates  *)
(* (declared size = extent, or extent - 1, inside the file): e.g. data_begin-1 on a last-byte    *)
(* file, $TOT-1 when a row is one byte.  Such a file is indistinguishable from a valid one; the  *)
(* property exempts it and the specification dictates the one outcome the reader must produce.  *)
(* Truncations, the empty file and TEXT-offset corruptions are never exempt.                     *)
GeometryField(fd) == fd \in {"tot", "par", "pnb1", "pnb2", "h_db", "h_de", "t_db", "t_de"}
Ambiguous == scn.flt.k = "field" /\ GeometryField(scn.flt.field) /\ out.k = "ok"

Supported(l) ==
  /\ l.mode = "L" /\ l.dt \in {"I", "F", "D"} /\ l.bo \in {"4321", "21", "1234", "12"}
  /\ (l.dt = "I" => \A p \in 1..Len(l.widths) : l.widths[p] % 8 = 0 /\ l.widths[p] <= 64)
  /\ (l.dt = "F" => \A p \in 1..Len(l.widths) : l.widths[p] = 32)
  /\ (l.dt = "D" => \A p \in 1..Len(l.widths) : l.widths[p] = 64)

WrittenText(l, flt) ==
  LET P == DictOf(FlatToks(TextPairs(l, flt, Offsets(l)))) IN
  IF l.stext /\ IsV3(l.ver) THEN Merge(P, DictOf(FlatToks(STextPairs))) ELSE P

(* Read(Write(x)) = Masked(x): theorem of the specification *)
DecodeExact ==
  (out.k # "todo" /\ Supported(scn.lay) /\ scn.flt = NoFault) =>
     /\ out.k = "ok" /\ out.N = scn.lay.N /\ out.D = Len(scn.lay.widths)
     /\ out.data = MaskedEvents(scn.lay)
     /\ out.text = WrittenText(scn.lay, NoFault)
     /\ out.an = (IF HasAnalysis(scn.lay) THEN DictOf(FlatToks(APairs)) ELSE {})
     /\ out.nxwarn = (scn.lay.nx # 0) /\ ~out.anwarn
UnsupportedRefused == (out.k # "todo" /\ ~Supported(scn.lay)) => out.k = "refused"

(* C16: a damaged file is refused, or read as exactly what it holds *)
Intact == /\ out.k = "ok" /\ out.N = scn.lay.N /\ out.D = Len(scn.lay.widths)
          /\ out.data = MaskedEvents(scn.lay)
          /\ out.text = WrittenText(scn.lay, scn.flt)
          /\ out.an = (IF HasAnalysis(scn.lay) THEN DictOf(FlatToks(APairs)) ELSE {})
(* DEVIATION of the implementation, named: a file cut inside (or just before) its trailing ANALYSIS  *)
(* segment is read with intact events and TEXT keywords but an empty or shortened ANALYSIS          *)
(* dictionary (parse errors of that segment are swallowed by design, shortened segments parse).    *)
(* The property asks for "the keywords of the intact file or an error": reported by the conformance *)
(* driver as known finding C16/truncated-analysis-read-silently.                                    *)
AnalysisLoss(s, o) ==
  /\ s.flt.k = "trunc" /\ HasAnalysis(s.lay) /\ o.k = "ok"
  /\ o.N = s.lay.N /\ o.D = Len(s.lay.widths) /\ o.data = MaskedEvents(s.lay) /\ o.text = WrittenText(s.lay, s.flt)
  /\ o.an # DictOf(FlatToks(APairs))
(* DEVIATION, named: the offsets of the SUPPLEMENTAL TEXT segment ($BEGINSTEXT / $ENDSTEXT) carry no redundancy at all -  *)
(* the segment need not start with the delimiter - so a corrupted offset that still lands on something parsable is read   *)
(* silently: "/SK1/s//v/" read one byte late is the keyword K1, read one byte short it is SK1 -> "s".  Events and the      *)
(* primary keywords are intact; the supplemental ones differ.  Known finding C16/stext-offset-corruption-read-silently.    *)
STextShift(s, o) ==
  /\ s.flt.k = "field" /\ s.flt.field \in {"t_sb", "t_se"} /\ o.k = "ok"
  /\ o.N = s.lay.N /\ o.D = Len(s.lay.widths) /\ o.data = MaskedEvents(s.lay)
  /\ o.text # WrittenText(s.lay, s.flt)
  /\ DictOf(FlatToks(TextPairs(s.lay, s.flt, Offsets(s.lay)))) \subseteq o.text       \* every primary pair is there
(* DEVIATION, named: a TEXT begin offset that lands exactly on the delimiter before a later keyword yields a well-formed    *)
(* segment without its first keyword(s).  The reader notices when it needs a missing keyword ($BEGINSTEXT, $BEGINDATA ...);  *)
(* $BEGINANALYSIS / $ENDANALYSIS are only consulted when the HEADER's ANALYSIS offsets are zero, so a file whose HEADER      *)
(* locates the ANALYSIS segment loads without them: events intact, every other keyword intact, the skipped ones missing.  *)
(* Known finding C16/text-begin-on-keyword-boundary-read-silently.                                                        *)
KeywordSkipped(s, o) ==
  /\ s.flt.k = "field" /\ s.flt.field = "h_tb" /\ s.flt.how \in {"kw1", "kw3", "kw5"} /\ o.k = "ok"
  /\ o.N = s.lay.N /\ o.D = Len(s.lay.widths) /\ o.data = MaskedEvents(s.lay)
  /\ o.text \subseteq WrittenText(s.lay, s.flt) /\ o.text # WrittenText(s.lay, s.flt)
Classify(s, o) == IF s.flt = NoFault THEN "no-fault" ELSE IF o.k = "refused" THEN "refused"
                  ELSE IF KeywordSkipped(s, o) THEN "keyword-skipped"
                  ELSE IF AnalysisLoss(s, o) THEN "analysis-loss"
                  ELSE IF STextShift(s, o) THEN "stext-shift"
                  ELSE IF s.flt.k = "field" /\ GeometryField(s.flt.field) THEN "self-consistent-geometry" ELSE "intact"
LoudFailure == (out.k # "todo" /\ scn.flt # NoFault) => (out.k = "refused" \/ Intact \/ Ambiguous \/ AnalysisLoss(scn, out) \/ STextShift(scn, out) \/ KeywordSkipped(scn, out))

(* ---- the machine ---- *)
Init == /\ scn \in Scenarios
        /\ file = <<>>
        /\ out = [k |-> "todo"]
        /\ cls = "-"
(* writing and reading happen in the Next step so that TLC's workers share the work *)
(* environment: damage the file in one of the enumerated ways *)
Damage == /\ scn.flt = Pending
          /\ \E ft \in FaultsOf(scn.lay) : scn' = [scn EXCEPT !.flt = ft]
          /\ UNCHANGED <<file, out, cls>>
Read == /\ out.k = "todo" /\ scn.flt # Pending
        /\ file' = Write(scn.lay, scn.flt)
        /\ out' = ReadFile(file', RBits(scn.lay))
        /\ cls' = Classify(scn, out')
        /\ UNCHANGED scn
Next == Damage \/ Read
Spec == Init /\ [][Next]_vars
=============================================================================
