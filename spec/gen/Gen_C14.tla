---------------------------- MODULE Gen_C14 ----------------------------
(* GEN for C14: every string over {delimiter, a, b} up to length L, in the three *)
(* calling modes of read_fcs_text_segment.  One initial state = one test.        *)
EXTENDS FCSText
CONSTANTS L
VARIABLES scn, out

D == 0
Alphabet == 0..2
Strings == UNION {[1..n -> Alphabet] : n \in 0..L}
Modes == {"primary", "supp", "auto"}       \* auto: primary with delim=None (first byte is the delimiter)

DelimOf(q, mode) == IF mode = "auto" /\ q # <<>> THEN q[1] ELSE D

Init == /\ scn \in [q : Strings, mode : Modes]
        /\ out = Outcome(scn.q, DelimOf(scn.q, scn.mode), scn.mode = "supp")
Next == UNCHANGED <<scn, out>>

(* spec-internal theorems evaluated on every generated string *)
Content(q, d) == SubSeq(q, 1, LastD(q, d))
ReEncodes ==        \* a clean primary decode re-encodes to exactly the content that was read
  LET d == DelimOf(scn.q, scn.mode)
      r == Decode(scn.q, d, FALSE)
  IN (scn.mode # "supp" /\ scn.q # <<>> /\ r.k = "ok" /\ ~r.warn)
       => Encode(PairsOf(r.toks), d) = Content(scn.q, d)
SuppAgrees ==       \* a supplemental segment that starts with the delimiter reads like a primary one
  (scn.mode = "supp" /\ scn.q # <<>> /\ scn.q[1] = D)
       => Decode(scn.q, D, TRUE) = Decode(scn.q, D, FALSE)
NoSilentRepair ==   \* warn only for the tolerated ending; tokens never empty, never start with the delimiter
  LET d == DelimOf(scn.q, scn.mode)
      r == Decode(scn.q, d, scn.mode = "supp")
  IN r.k = "ok" => /\ \A i \in 1..Len(r.toks) : r.toks[i] # <<>> /\ r.toks[i][1] # d
                   /\ (r.warn => r.slack >= 1 /\ r.toks # <<>>)
=============================================================================
