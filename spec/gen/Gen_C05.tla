---------------------------- MODULE Gen_C05 ----------------------------
(* GEN for C05: integer scenarios whose outcome does not depend on the density  *)
(* order: the replay path for EVERY bin mask, fraction 0, fraction 1, and the    *)
(* error conditions.  Coordinates are the edge codes themselves (edges at the    *)
(* even numbers 0, 2, .., 2k).                                                   *)
EXTENDS DensityGate, TLC
CONSTANTS KX, KY, NEv
VARIABLES stage, ev, scn, out
vars == <<stage, ev, scn, out>>
Codes(k) == (-1)..(2 * k + 1)

Init == stage = "events" /\ ev = <<>> /\ scn = <<>> /\ out = <<>>
AddEvent == /\ stage = "events" /\ Len(ev) < NEv
            /\ \E c \in Codes(KX) \X Codes(KY) : ev' = Append(ev, c)
            /\ stage' = "events" /\ UNCHANGED <<scn, out>>
Stop == stage = "events" /\ Len(ev) >= 1 /\ stage' = "mode" /\ UNCHANGED <<ev, scn, out>>
Modes == {"f0", "f1", "fneg", "fbig", "one-channel", "three-channels"}
PickMode ==
  /\ stage = "mode"
  /\ \/ \E m \in Modes :
          /\ scn' = <<m>>
          /\ out' = IF m \in {"fneg", "fbig", "one-channel", "three-channels"} \/ Len(ev) < 2
                    THEN [k |-> "err", mask |-> <<>>]
                    ELSE [k |-> "ok", mask |-> IF m = "f0" THEN [i \in 1..Len(ev) |-> FALSE]
                                                ELSE [i \in 1..Len(ev) |-> InGrid(ev[i], KX, KY)]]
     \/ \E bm \in SUBSET Bins(KX, KY) :
          /\ scn' = <<"replay", [i \in 1..KX |-> [j \in 1..KY |-> <<i - 1, j - 1>> \in bm]]>>
          /\ out' = IF Len(ev) < 2 THEN [k |-> "err", mask |-> <<>>] ELSE [k |-> "ok", mask |-> EventMask(ev, bm, KX, KY)]
  /\ stage' = "done" /\ UNCHANGED ev
Next == AddEvent \/ Stop \/ PickMode
Spec == Init /\ [][Next]_vars
Done == stage = "done"
NeverKeepsOutside == (Done /\ out.k = "ok") => \A i \in 1..Len(ev) : out.mask[i] => InGrid(ev[i], KX, KY)
=============================================================================
