---------------------------- MODULE Gen_C19 ----------------------------
(* GEN for C19: hist_bins calls on a 3-channel sample (resolutions 5, 256, 1000) *)
(* in three states: raw, RFI-converted (lower limits positive), MEF-like (lower  *)
(* limit 0 after conversion).                                                    *)
EXTENDS HistBins, LogicleParams, TLC
VARIABLES stage, scn, out
vars == <<stage, scn, out>>
C == 3
ResOfState(st) == IF st = "raw18" THEN <<262144, 256, 1000>> ELSE <<5, 256, 1000>>      \* raw18: an 18-bit channel
States == {"raw", "rfi", "mef", "float-neg", "raw18"}       \* float-neg: float data with negative events
LoNonPos(s) == IF s = "rfi" THEN <<FALSE, FALSE, FALSE>> ELSE <<TRUE, TRUE, TRUE>>

ChF(t, cols, named) == [t |-> t, cols |-> cols, named |-> named]
ChForms == {ChF("none", <<>>, <<>>), ChF("scalar", <<1>>, <<0>>), ChF("scalar", <<2>>, <<1>>), ChF("scalar", <<3>>, <<0>>),
            ChF("list", <<1, 2>>, <<0, 1>>), ChF("list", <<3, 1>>, <<1, 1>>), ChF("list", <<2>>, <<0>>),
            ChF("list", <<3, 2, 1>>, <<0, 0, 1>>), ChF("list", <<2, 3>>, <<1, 0>>)}
Arg(t, vals) == [t |-> t, vals |-> vals]
NbArgs(f) == LET n == Len(Requested(f, C)) IN
  {Arg("scalar", <<NoVal>>), Arg("scalar", <<<<1>>>>), Arg("scalar", <<<<2>>>>), Arg("scalar", <<<<7>>>>), Arg("scalar", <<<<16>>>>)}
  \cup (IF f.t = "scalar" THEN {} ELSE {Arg("list", [j \in 1..n |-> <<j + 2>>]), Arg("list", [j \in 1..n |-> IF j = 1 THEN NoVal ELSE <<3>>])})
ScArgs(f) == LET n == Len(Requested(f, C)) IN
  {Arg("scalar", <<s>>) : s \in {"linear", "log", "logicle", "foo"}}
  \cup (IF f.t = "scalar" THEN {} ELSE {Arg("list", [j \in 1..n |-> IF j % 2 = 1 THEN "log" ELSE "linear"]),
                                        Arg("list", [j \in 1..n |-> IF j = 1 THEN "logicle" ELSE "linear"]),
                                        Arg("list", [j \in 1..n |-> IF j = n THEN "foo" ELSE "logicle"])})
Overrides == {"none", "T", "Tbig", "M", "W", "TMW", "Tneg", "Mzero", "Wneg", "Wzero"}      \* Tbig: a T above 2^18 (M then follows T)
Given(o) == CASE o = "none" -> {} [] o \in {"T", "Tbig", "Tneg"} -> {"T"} [] o \in {"M", "Mzero"} -> {"M"} [] o \in {"W", "Wneg", "Wzero"} -> {"W"} [] OTHER -> {"T", "M", "W"}
Sign(o) == [T |-> IF o = "Tneg" THEN "neg" ELSE "pos", M |-> IF o = "Mzero" THEN "zero" ELSE "pos", W |-> IF o = "Wneg" THEN "neg" ELSE IF o = "Wzero" THEN "zero" ELSE "pos"]

Init == stage = 0 /\ scn = <<>> /\ out = <<>>
Pick(n, S) == stage = n /\ \E x \in S : scn' = Append(scn, x) /\ stage' = n + 1 /\ UNCHANGED out
Next ==
  \/ Pick(0, States) \/ Pick(1, ChForms)
  \/ stage = 2 /\ \E a \in NbArgs(scn[2]) : scn' = Append(scn, a) /\ stage' = 3 /\ UNCHANGED out
  \/ stage = 3 /\ \E a \in ScArgs(scn[2]) : scn' = Append(scn, a) /\ stage' = 4 /\ UNCHANGED out
  \/ stage = 4 /\ \E o \in Overrides : (o # "none" => \E j \in 1..Len(scn[4].vals) : scn[4].vals[j] = "logicle")
                                       /\ scn' = Append(scn, o) /\ stage' = 5 /\ UNCHANGED out
  \/ /\ stage = 5
     /\ LET base == HistBinsCall(scn[2], scn[3], scn[4], C, ResOfState(scn[1]), LoNonPos(scn[1]))
            usesLogicle == base.k = "ok" /\ \E j \in 1..Len(base.per) : base.per[j].scale = "logicle"
        IN out' = IF usesLogicle /\ Refused(Given(scn[5]), Sign(scn[5])) THEN [k |-> "err", scalar |-> FALSE, per |-> <<>>, src |-> <<>>]
                  ELSE [k |-> base.k, scalar |-> base.scalar, per |-> base.per,
                        src |-> Sources(Given(scn[5]), TRUE, TRUE, scn[1] = "float-neg")]
     /\ stage' = 100 /\ UNCHANGED scn
Spec == Init /\ [][Next]_vars
Done == stage = 100

EdgesIncreasing == (Done /\ out.k = "ok") => \A j \in 1..Len(out.per) : out.per[j].n <= 16 => Increasing(out.per[j].res, out.per[j].n)
EdgesCover == (Done /\ out.k = "ok") => \A j \in 1..Len(out.per) : Covers(out.per[j].res, out.per[j].n)
CentredSmall == Centred(5) /\ Centred(8) /\ Centred(16) /\ \A r \in {2, 5, 8, 16} : \A n \in 1..20 : EndsAgree(r, n)
SourcesTotal == (Done /\ out.k = "ok") => out.src.T \in {"given", "largest-range-upper-limit"} /\ out.src.W \in {"given", "zero", "from-most-negative-event"}
UnknownScaleRefused == Done => ((\E j \in 1..Len(scn[4].vals) : scn[4].vals[j] = "foo" /\ (scn[4].t = "scalar" \/ j <= Len(Requested(scn[2], C)))) => out.k = "err")
=============================================================================
