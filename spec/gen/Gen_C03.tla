---------------------------- MODULE Gen_C03 ----------------------------
(* GEN for C03: the argument-normalisation decision table of to_rfi crossed with *)
(* the per-channel law selection, on a 3-channel sample                          *)
(*   c1 log  a0 = 4,   a1 = 1, r = 1024                                          *)
(*   c2 log  a0 = 5/2, a1 = 0 in the file (read as 1), r = 256                   *)
(*   c3 linear, gain 4 (container "sample") or absent ("sample-nogain")          *)
(* and on a plain array.  Environment actions pick container, channel form and   *)
(* the shape of each of the three settings.                                      *)
EXTENDS Units, TLC
VARIABLES stage, scn, out
vars == <<stage, scn, out>>
C == 3
(* "sample" / "sample-double": c2 is a second LINEAR channel without gain, so that a call can hold  *)
(* two linear channels of which only one has a gain; "sample-nogain": c2 log with a1 = 0 in the file *)
Settings(cont) == [amp |-> IF cont = "sample-nogain"
                           THEN << <<<<4, 1>>, <<1, 1>>>>, <<<<5, 2>>, <<1, 1>>>>, <<<<0, 1>>, <<0, 1>>>> >>
                           ELSE << <<<<4, 1>>, <<1, 1>>>>, <<<<0, 1>>, <<0, 1>>>>, <<<<0, 1>>, <<0, 1>>>> >>,
                   gain |-> <<NoVal, NoVal, IF cont \in {"sample", "sample-double"} THEN <<4, 1>> ELSE NoVal>>,
                   res |-> <<1024, 256, 1000>>]
Containers == {"sample", "sample-nogain", "sample-double", "array", "array-float"}
IsSample(c) == c \notin {"array", "array-float"}

ChF(t, cols, named, tup) == [t |-> t, cols |-> cols, named |-> named, tup |-> tup]
Perms == {<<1>>, <<2>>, <<3>>, <<1, 2>>, <<2, 1>>, <<1, 3>>, <<3, 1>>, <<2, 3>>, <<3, 2>>,
          <<1, 2, 3>>, <<1, 3, 2>>, <<2, 1, 3>>, <<2, 3, 1>>, <<3, 1, 2>>, <<3, 2, 1>>}
(* spelling of each requested channel: 0 position, 1 name, 2 NEGATIVE position (counted from the last channel; the    *)
(* first channel is -C); "mixed" alternates positions and names                                                        *)
Spell(p, v) == [j \in 1..Len(p) |-> CASE v = "pos" -> 0 [] v = "name" -> 1 [] v = "neg" -> 2 [] OTHER -> (j + p[1]) % 2]
ChForms == {ChF("none", <<>>, <<>>, FALSE)}
           \cup {ChF("scalar", <<c>>, <<n>>, FALSE) : c \in 1..C, n \in {0, 1, 2}}
           \cup {ChF("list", p, Spell(p, v), tu) : p \in Perms, v \in {"pos", "name", "mixed"}, tu \in BOOLEAN}
           \cup {ChF("list", p, Spell(p, "neg"), FALSE) : p \in {<<1>>, <<3>>, <<1, 2>>, <<3, 1>>, <<1, 2, 3>>}}
Named(f) == \E j \in 1..Len(f.named) : f.named[j] = 1

Arg(t, vals) == [t |-> t, vals |-> vals]
OvAt == <<<<3, 1>>, <<2, 1>>>>          \* override: log, 3 decades, offset 2
OvAtLin == <<<<0, 1>>, <<10, 1>>>>      \* override: linear (zero decades; the second number plays no role)
OvAg == <<5, 2>>
OvRes == <<512, 1>>             \* settings are tuples throughout (TLC cannot compare 512 with <<>>)
ArgShapes(f, ov, alt) ==
  LET n == Len(Requested(f, C)) IN
  IF f.t = "scalar" THEN {Arg("none", <<>>), Arg("scalar", <<ov>>), Arg("scalar", <<alt>>)}
  ELSE {Arg("none", <<>>), Arg("list", [j \in 1..n |-> ov]), Arg("list", [j \in 1..n |-> IF j = 1 THEN ov ELSE NoVal]),
        Arg("list", [j \in 1..n |-> IF j = n THEN alt ELSE NoVal]),
        Arg("list", [j \in 1..(n + 1) |-> ov]), Arg("list", [j \in 1..(n - 1) |-> ov]), Arg("scalar", <<ov>>)}

Init == stage = 0 /\ scn = <<>> /\ out = <<>>
Pick(n, S) == stage = n /\ \E x \in S : scn' = Append(scn, x) /\ stage' = n + 1 /\ UNCHANGED out
Next ==
  \/ Pick(0, Containers)
  \/ stage = 1 /\ \E f \in ChForms : (Named(f) => IsSample(scn[1])) /\ scn' = Append(scn, f) /\ stage' = 2 /\ UNCHANGED out
  \/ stage = 2 /\ \E a \in ArgShapes(scn[2], OvAt, OvAtLin) : scn' = Append(scn, a) /\ stage' = 3 /\ UNCHANGED out
  \/ stage = 3 /\ \E a \in ArgShapes(scn[2], OvAg, OvAg) : scn' = Append(scn, a) /\ stage' = 4 /\ UNCHANGED out
  \/ stage = 4 /\ \E a \in ArgShapes(scn[2], OvRes, OvRes) : scn' = Append(scn, a) /\ stage' = 5 /\ UNCHANGED out
  \/ /\ stage = 5
     /\ out' = ToRFI(scn[2], scn[3], scn[4], scn[5], IsSample(scn[1]), Settings(scn[1]), C)
     /\ stage' = 100 /\ UNCHANGED scn
Spec == Init /\ [][Next]_vars
Done == stage = 100

(* UnitLaw: only requested columns change, each by exactly one law *)
OnlyRequested == (Done /\ out.k = "ok") =>
   \A c \in 1..C : (out.terms[c] # <<>>) <=> (\E j \in 1..Len(Requested(scn[2], C)) : Requested(scn[2], C)[j] = c)
(* batch = sequential in any order: the law of a column does not depend on the other requested columns *)
BatchIsSequential == (Done /\ out.k = "ok" /\ scn[2].t = "list") =>
   \A j \in 1..Len(scn[2].cols) :
      LET c == scn[2].cols[j]
          single == ToRFI(ChF("scalar", <<c>>, <<0>>, FALSE),
                          Arg(IF ArgVal(scn[2], scn[3], j) = NoVal THEN "none" ELSE "scalar", <<ArgVal(scn[2], scn[3], j)>>),
                          Arg(IF ArgVal(scn[2], scn[4], j) = NoVal THEN "none" ELSE "scalar", <<ArgVal(scn[2], scn[4], j)>>),
                          Arg(IF ArgVal(scn[2], scn[5], j) = NoVal THEN "none" ELSE "scalar", <<ArgVal(scn[2], scn[5], j)>>),
                          IsSample(scn[1]), Settings(scn[1]), C)
      IN single.k = "ok" /\ single.terms[c] = out.terms[c]
LengthMismatchRefused == Done =>
   ((\E i \in 3..5 : scn[i].t = "list" /\ scn[2].t # "scalar" /\ Len(scn[i].vals) # Len(Requested(scn[2], C))) => out.k = "refused")
=============================================================================
