---------------------------- MODULE Gen_C04 ----------------------------
(* GEN for C04: histories of up to Depth successive indexings of an R x C        *)
(* sample.  Every reachable state is one test: apply hist to the real FCSData    *)
(* (and to a plain ndarray) and compare with obj.  The same states drive the     *)
(* assignment tests (the last key of hist is used as the target of a write).     *)
EXTENDS NumpyIndex
CONSTANTS R, C, Depth, FullMenu      \* FullMenu: use the complete key grammar at depth 1
VARIABLES hist, obj, cv, kf, np

vars == <<hist, obj, cv, kf, np>>

SliceVals == IF FullMenu THEN {NONE, -2, 0, 1, 2, 5} ELSE {NONE, -2, 1, 5}
SliceSteps == IF FullMenu THEN {NONE, 1, 2, -1, 0} ELSE {NONE, 2, -1, 0}
Slices == {KSlice(a, b, s) : a \in SliceVals, b \in SliceVals, s \in SliceSteps}
Bits(n) == [1..n -> {0, 1}]

RowsFull ==
  {KInt(i) : i \in (-(R + 1))..R}
  \cup Slices
  \cup {KList(<<x>>) : x \in {-1, 0, 1, 2, R}}
  \cup {KList(<<x, y>>) : x \in {-1, 0, 2, R}, y \in {-1, 0, 2, R}}
  \cup {KMask(b) : b \in Bits(R)} \cup {KMask([j \in 1..(R + 1) |-> 1])}
  \cup {KEll}

ColElems == {0, 1, 2, -1, C, NAME, NAME + 1, NAME + 2, NAME + C}
ColsFull ==
  {KAbsent, KEll}
  \cup {KInt(i) : i \in (-(C + 1))..C}
  \cup {KName(c) : c \in 0..C}
  \cup Slices
  \cup {KList(<<x>>) : x \in ColElems} \cup {KList(<<x, y>>) : x \in ColElems, y \in ColElems}
  \cup {KList(<<x, y, z>>) : x \in {0, NAME + 1, 2}, y \in {0, NAME + 1, 2}, z \in {0, NAME + 1, 2}}
  \cup {KTuple(<<x>>) : x \in ColElems} \cup {KTuple(<<x, y>>) : x \in ColElems, y \in ColElems}
  \cup {KTuple(<<x, y, z>>) : x \in {0, NAME + 1, 2}, y \in {0, NAME + 1, 2}, z \in {0, NAME + 1, 2}}
  \cup {KBoolList(b) : b \in Bits(C)} \cup {KBoolList([j \in 1..(C + 1) |-> 1])}
  \cup {KNpInt(i) : i \in {-1, 0, 2, C}}
  \cup {KNpArray(<<0>>), KNpArray(<<2, 0>>), KNpArray(<<1, 1>>), KNpArray(<<C>>)}

RowsSmall ==
  {KInt(0), KInt(-1), KSlice(NONE, NONE, NONE), KSlice(1, NONE, NONE), KSlice(NONE, NONE, -1),
   KSlice(0, 2, NONE), KList(<<2, 0>>), KList(<<1>>), KMask(<<1, 0, 1>>), KEll}
ColsSmall ==
  {KAbsent, KInt(1), KInt(-1), KName(0), KName(2), KSlice(NONE, NONE, NONE), KSlice(1, NONE, NONE),
   KSlice(NONE, NONE, -1), KList(<<NAME + 2, 0>>), KTuple(<<1, NAME>>), KList(<<1>>), KEll}

RowMenu == IF FullMenu /\ hist = <<>> THEN RowsFull ELSE RowsSmall
ColMenu == IF FullMenu /\ hist = <<>> THEN ColsFull ELSE ColsSmall

Init == hist = <<>> /\ obj = Base(R, C) /\ cv = TRUE /\ kf = FALSE /\ np = Base(R, C)

Step(rk, ck) ==
  /\ obj.k \in {"mat", "vec"}
  /\ Len(hist) < Depth
  /\ hist' = Append(hist, <<rk, ck>>)
  /\ obj' = Index(obj, rk, ck)
  /\ np' = NpIndex(obj, rk, ck)      \* plain NumPy applied to the same (expected) object
  /\ cv' = (cv /\ obj'.view)
  /\ kf' = (kf \/ RowVecSubselect(obj, rk, ck))

(* 1-D results are indexed with one-part keys only (a two-part key containing an  *)
(* ellipsis is legal NumPy on a 1-D array but yields 0-d arrays; outside the      *)
(* grammar of the property).                                                      *)
Next == \E rk \in RowMenu, ck \in ColMenu : (obj.k = "vec" => ck = KAbsent) /\ Step(rk, ck)
Spec == Init /\ [][Next]_vars

(* invariants of the specification itself *)
Aligned == MetaAligned(obj)
NpDiffersOnlyWhenEmpty == np # obj => (obj.k = "err" /\ np.k = "vec" /\ np.cells = <<>>)
ViewOnlyBasic ==     \* an object reached through an advanced index is never a view
  \A j \in 1..Len(hist) :
     (hist[j][1].t \in {"list", "mask"} \/ hist[j][2].t \in {"list", "tuple", "boollist", "nparray"}) => ~cv
=============================================================================
