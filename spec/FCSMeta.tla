---------------------------- MODULE FCSMeta ----------------------------
(* Derivation of a sample's acquisition attributes from TEXT keywords, as a      *)
(* decision table over STRUCTURED keyword states (the harness renders them to    *)
(* text with a fixed table; see harness/conf_C17.py RENDER).                      *)
(*   keyword state  [s |-> "absent" | "well" | "ill", v |-> variant, f |-> fields]*)
(* Rationals are <<num, den>>.  NONE_ATTR is an absent attribute (Python None).   *)
EXTENDS Integers, Sequences

KW(s, v, f) == [s |-> s, v |-> v, f |-> f]
Absent == KW("absent", "-", <<>>)
NoneAttr == <<>>

----------------------------------------------------------------------------
(* time step: $TIMESTEP (seconds) else legacy TIMETICKS (milliseconds); a value  *)
(* that is not a number yields an absent attribute.  f = <<num, den>>             *)
TimeStep(ts, tt) ==
  IF ts.s = "well" THEN <<ts.f[1], ts.f[2]>>
  ELSE IF ts.s = "ill" THEN NoneAttr
  ELSE IF tt.s = "well" THEN <<tt.f[1], tt.f[2] * 1000>>
  ELSE NoneAttr

(* $BTIM / $ETIM: three standard formats                                          *)
(*   "hms"    hh:mm:ss          f = <<h, m, s>>                                   *)
(*   "hms60"  hh:mm:ss:tt       f = <<h, m, s, tt>>   tt in 1/60 s                *)
(*   "hmscc"  hh:mm:ss.cc       f = <<h, m, s, cc>>   cc in 1/100 s (two digits)  *)
(*   "hmsc"   hh:mm:ss.c        f = <<h, m, s, c>>    one digit, 1/10 s           *)
(* result <<h, m, s, microseconds>> or NoneAttr                                   *)
ValidHMS(f) == f[1] \in 0..23 /\ f[2] \in 0..59 /\ f[3] \in 0..59
ParseTime(k) ==
  IF k.s # "well" THEN NoneAttr
  ELSE IF ~ValidHMS(k.f) THEN NoneAttr
  ELSE CASE k.v = "hms"   -> <<k.f[1], k.f[2], k.f[3], 0>>
         [] k.v = "hms60" -> LET us == (k.f[4] * 1000000) \div 60 IN
                             IF us > 999999 THEN NoneAttr ELSE <<k.f[1], k.f[2], k.f[3], us>>
         [] k.v = "hmscc" -> <<k.f[1], k.f[2], k.f[3], k.f[4] * 10000>>
         [] k.v = "hmsc"  -> <<k.f[1], k.f[2], k.f[3], k.f[4] * 100000>>
         [] OTHER         -> NoneAttr

(* $DATE: four accepted formats, tried in this order                              *)
(*   "dby" dd-mmm-yy   "dbY" dd-mmm-yyyy   "ybd" yy-mmm-dd   "Ybd" yyyy-mmm-dd    *)
(* f = <<first number, month 1..12, last number>>; two-digit years pivot at 69    *)
Year2(y) == IF y <= 68 THEN 2000 + y ELSE 1900 + y
DaysIn(m, y) == CASE m \in {1, 3, 5, 7, 8, 10, 12} -> 31
                  [] m \in {4, 6, 9, 11} -> 30
                  [] OTHER -> IF (y % 4 = 0 /\ y % 100 # 0) \/ y % 400 = 0 THEN 29 ELSE 28
ValidDate(y, m, d) == m \in 1..12 /\ d >= 1 /\ d <= DaysIn(m, y)
ParseDate(k) ==
  IF k.s # "well" THEN NoneAttr
  ELSE LET a == k.f[1]  m == k.f[2]  b == k.f[3] IN
       CASE k.v = "dby" -> IF ValidDate(Year2(b), m, a) THEN <<Year2(b), m, a>> ELSE NoneAttr
         [] k.v = "dbY" -> IF ValidDate(b, m, a) THEN <<b, m, a>> ELSE NoneAttr
         [] k.v = "ybd" -> \* only reached when the text is not a valid dd-mmm-yy (first number above 31)
                           IF a > 31 /\ ValidDate(Year2(a), m, b) THEN <<Year2(a), m, b>> ELSE NoneAttr
         [] k.v = "Ybd" -> IF ValidDate(a, m, b) THEN <<a, m, b>> ELSE NoneAttr
         [] OTHER       -> NoneAttr

(* start / end: the parsed time, with the date when one is present *)
NoStamp == [date |-> <<>>, t |-> <<>>]
Stamp(date, t) == IF t = NoneAttr THEN NoStamp ELSE [date |-> date, t |-> t]

Micro(t) == ((t[1] * 60 + t[2]) * 60 + t[3])          \* seconds of the day (microseconds kept apart: 32-bit)

(* acquisition duration in seconds as <<whole seconds, microseconds>> difference, *)
(* precedence: time channel and time step, else start and end, else absent        *)
(* tch = <<>> when there is no time channel, else <<first value, last value>>      *)
AcqTime(tch, step, st, en) ==
  IF tch # <<>> /\ step # NoneAttr THEN [k |-> "channel", ticks |-> tch[2] - tch[1], step |-> step, sec |-> 0, us |-> 0]
  ELSE IF st # NoStamp /\ en # NoStamp
       THEN [k |-> "clock", sec |-> Micro(en.t) - Micro(st.t), us |-> en.t[4] - st.t[4], ticks |-> 0, step |-> <<>>]
  ELSE [k |-> "none", sec |-> 0, us |-> 0, ticks |-> 0, step |-> <<>>]

----------------------------------------------------------------------------
(* detector settings of channel n *)
(* voltage: $PnV, else BD$WORD(12+n) when CREATOR contains "CellQuest Pro"         *)
Voltage(pnv, creator, bdword) ==
  IF pnv.s = "well" THEN <<pnv.f[1], pnv.f[2]>>
  ELSE IF pnv.s = "ill" THEN NoneAttr
  ELSE IF creator = "cellquest" /\ bdword.s = "well" THEN <<bdword.f[1], bdword.f[2]>>
  ELSE NoneAttr
(* gain: $PnG, else CytekP<nn>G (two-digit channel number) when CREATOR contains   *)
(* "FlowJoCollectorsEdition"                                                        *)
Gain(png, creator, cytek) ==
  IF png.s = "well" THEN <<png.f[1], png.f[2]>>
  ELSE IF png.s = "ill" THEN NoneAttr
  ELSE IF creator = "flowjo" /\ cytek.s = "well" THEN <<cytek.f[1], cytek.f[2]>>
  ELSE NoneAttr
(* amplification type $PnE = a0,a1 : a log amplifier's zero offset is read as one *)
AmpType(a0, a1) == IF a0 # <<0, 1>> /\ a1 = <<0, 1>> THEN <<a0, <<1, 1>>>> ELSE <<a0, a1>>
Label(pns) == IF pns.s = "well" THEN <<pns.f[1]>> ELSE NoneAttr
RangeOf(R) == <<0, R - 1>>
=============================================================================
