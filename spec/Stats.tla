---------------------------- MODULE Stats ----------------------------
(* Textbook definitions of the ten summary statistics on a column of integers,  *)
(* as exact rationals <<num, den>> (den > 0, not normalised).  Statistics whose   *)
(* definition is irrational are given through an exact identity:                  *)
(*   std^2 = var     cv^2 = var / mean^2     gmean^N = product                    *)
(* gstd / gcv are tied to each other and to the data by identities the harness    *)
(* evaluates on the returned values (logged observation for gstd itself).         *)
EXTENDS Integers, Sequences, SequencesExt, FiniteSets

RECURSIVE SumSeq(_)
SumSeq(s) == IF s = <<>> THEN 0 ELSE Head(s) + SumSeq(Tail(s))
RECURSIVE SumSq(_)
SumSq(s) == IF s = <<>> THEN 0 ELSE Head(s) * Head(s) + SumSq(Tail(s))
RECURSIVE Prod(_)
Prod(s) == IF s = <<>> THEN 1 ELSE Head(s) * Prod(Tail(s))
Sorted(s) == SortSeq(s, LAMBDA a, b : a < b)

Mean(x) == <<SumSeq(x), Len(x)>>
Median(x) == LET s == Sorted(x)  n == Len(x) IN
             IF n % 2 = 1 THEN <<s[(n + 1) \div 2], 1>> ELSE <<s[n \div 2] + s[(n \div 2) + 1], 2>>
Count(x, v) == Cardinality({i \in 1..Len(x) : x[i] = v})
Modes(x) == {x[i] : i \in {j \in 1..Len(x) : \A k \in 1..Len(x) : Count(x, x[k]) <= Count(x, x[j])}}
(* population variance: (N*sum(x^2) - sum(x)^2) / N^2 *)
Var(x) == <<Len(x) * SumSq(x) - SumSeq(x) * SumSeq(x), Len(x) * Len(x)>>
(* cv^2 = var / mean^2 = (N*sumsq - sum^2) / sum^2 *)
Cv2(x) == <<Len(x) * SumSq(x) - SumSeq(x) * SumSeq(x), SumSeq(x) * SumSeq(x)>>
(* q-th quartile (q = 1 or 3), linear interpolation between order statistics: position (N-1)*q/4 *)
Quartile(x, q) == LET s == Sorted(x)  n == Len(x)
                      lo == ((n - 1) * q) \div 4
                      fr == ((n - 1) * q) % 4
                  IN IF fr = 0 THEN <<4 * s[lo + 1], 4>> ELSE <<s[lo + 1] * (4 - fr) + s[lo + 2] * fr, 4>>
Iqr(x) == <<Quartile(x, 3)[1] - Quartile(x, 1)[1], 4>>
(* rcv = iqr / median *)
Rcv(x) == <<Iqr(x)[1] * Median(x)[2], Iqr(x)[2] * Median(x)[1]>>
GmeanPow(x) == Prod(x)                       \* gmean^N

(* all statistics of one column; "wide" columns (values up to 2^16) only carry the *)
(* statistics whose exact value fits 32-bit arithmetic                              *)
ColStats(x, wide) ==
  [mean |-> Mean(x), median |-> Median(x), modes |-> Modes(x), iqr |-> Iqr(x), rcv |-> Rcv(x),
   var |-> IF wide THEN <<>> ELSE Var(x), cv2 |-> IF wide THEN <<>> ELSE Cv2(x),
   gpow |-> IF wide \/ (\E i \in 1..Len(x) : x[i] <= 0) THEN 0 ELSE GmeanPow(x), n |-> Len(x)]

(* channel argument forms for a C-column sample: which columns, in which order,   *)
(* and whether the result is a scalar (scalar channel) or a vector                 *)
(* form = [t |-> "absent" | "pos" | "name" | "list", xs |-> columns (0-based), named |-> which entries are names] *)
Requested(form, C) == IF form.t = "absent" THEN [j \in 1..C |-> j - 1] ELSE form.xs
ScalarResult(form) == form.t \in {"pos", "name"}
=============================================================================
