#!/bin/sh
# Offline setup: nothing to build; verify the tools the checks need are present.
set -e
cd "$(dirname "$0")/.."
java -version 2>&1 | head -1
test -f /opt/veriftools/tla/tla2tools.jar
/venv/bin/python -c "import numpy, scipy, pandas, hypothesis, FlowCal" 
mkdir -p evidence out/replay
echo setup ok
