#!/bin/bash
# run every seeded mutant against the check of its own property (quick tier); prints one line per mutant
cd /verif
for d in seeded/*/; do
  name=$(basename $d)
  pid=$(/venv/bin/python -c "import json;print(json.load(open('$d/meta.json'))['property'])")
  tools/run_mutant.sh $name $pid quick | head -1
done
