#!/bin/bash
# run every seeded change against the quick check of its own property; one line per change.
# Uses scratch worktrees (tools/run_mutant_wt.sh): /repo's working tree is never modified. $1 = parallel jobs (default 3)
cd /verif
J="${1:-3}"
for d in seeded/*/; do
  name=$(basename $d)
  pid=$(/venv/bin/python -c "import json;print(json.load(open('$d/meta.json'))['property'])")
  echo "$name $pid"
done | xargs -P $J -L 1 sh -c 'tools/run_mutant_wt.sh $0 $1 quick | head -1'
