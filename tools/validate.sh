#!/bin/sh
# validate MANIFEST.json and evidence/*.json against the schemas (uses the tooling venv's jsonschema)
cd "$(dirname "$0")/.."
python3-vt - <<'PY'
import json, glob, jsonschema
m=json.load(open('MANIFEST.json')); jsonschema.validate(m, json.load(open('/root/.vp/MANIFEST.schema.json')))
es=json.load(open('/root/.vp/EVIDENCE.schema.json'))
for f in sorted(glob.glob('evidence/*.json')):
    jsonschema.validate(json.load(open(f)), es); print('ok', f)
ids={c['property_id'] for c in m['checks']}|{c['property_id'] for c in m.get('not_applicable',[])}
props=[json.loads(l)['id'] for l in open('properties.jsonl')]
assert set(props)==ids, set(props)^ids
print('manifest ok; claimed', sorted(c['property_id'] for c in m['checks']))
PY
