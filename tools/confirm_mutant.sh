#!/bin/bash
# confirm_mutant.sh <property-id> <agent-worktree> [name]
# Re-checks an agent-produced change in a fresh scratch worktree of /repo HEAD (outside /repo and /verif):
#   demo passes without the change, fails with it, and the pinned suite's 400 stable tests still pass.
# On success stores patch.diff, demo.py, notes.md, meta.json under /verif/seeded/<name>/ .
set -u
id="$1"; src="$2"; name="${3:-$id}"
S=/tmp/confirm_$name; rm -rf $S; 
git -C /repo worktree add -q --detach $S HEAD || exit 2
trap 'git -C /repo worktree remove --force '$S' 2>/dev/null; rm -rf '$S'' EXIT
cp $src/MUTANT.diff $S/patch.diff; cp $src/demo.py $S/demo.py; cp $src/MUTANT.md $S/notes.md 2>/dev/null
sed -i "s#$src#$S#g" $S/demo.py
cd $S
run_demo() { PYTHONPATH=$S MPLBACKEND=Agg PYTHONHASHSEED=0 timeout 900 /venv/bin/python $S/demo.py >$S/demo_$1.log 2>&1; echo $?; }
r0=$(run_demo base)
git apply --3way patch.diff 2>$S/apply.log || git apply patch.diff || { echo "APPLY FAILED"; cat $S/apply.log; exit 1; }
git diff HEAD -- FlowCal > $S/patch_rebased.diff
r1=$(run_demo mut)
/venv/bin/python -m pytest -q -p no:cacheprovider --timeout=900 -rf 2>&1 | grep -E "^FAILED|passed|failed" | sed 's/ - .*//' | sort > $S/suite_mut.txt
nfail=$(grep -c ^FAILED $S/suite_mut.txt); summary=$(grep -E "passed|failed" $S/suite_mut.txt | tail -1)
/venv/bin/python - <<PY
import json
base=json.load(open('/root/.vp/BASELINE.json'))
fails=[l.split()[1] for l in open('$S/suite_mut.txt') if l.startswith('FAILED')]
def norm(t): 
    f,rest=t.split('::',1); return f.replace('/','.').replace('.py','')+'.'+rest if False else f[:-3].replace('/','.')+'.'+rest.replace('::','::')
bad=[f for f in fails if norm(f).replace('.Test','.Test') in set(base['stable_pass'])]
print('stable tests now failing:', bad)
open('$S/bad.txt','w').write('\n'.join(bad))
PY
nbad=$(grep -c . $S/bad.txt)
echo "demo base rc=$r0 (want 0)  demo mutant rc=$r1 (want !=0)  suite: $summary  stable-broken=$nbad"
if [ "$r0" = "0" ] && [ "$r1" != "0" ] && [ "$nbad" = "0" ]; then
  D=/verif/seeded/$name; mkdir -p $D
  cp $S/patch_rebased.diff $D/patch.diff; cp $src/demo.py $D/demo.py; sed -i "s#$src#/repo#g" $D/demo.py
  [ -f $S/notes.md ] && cp $S/notes.md $D/notes.md
  /venv/bin/python - <<PY
import json
json.dump({"property":"$id","name":"$name","needs":open('$S/notes.md').read() if __import__('os').path.exists('$S/notes.md') else "",
 "confirmed":{"demo_unmodified_rc":$r0,"demo_modified_rc":$r1,"suite_with_change":"$summary","stable_tests_broken":$nbad,
 "how":"fresh scratch worktree of /repo HEAD under /tmp; demo.py run before/after git apply; pytest full suite with the change compared with BASELINE.json stable_pass"},
 "repo_head":"$(git -C /repo rev-parse --short HEAD)","detected_by":None}, open('$D/meta.json','w'), indent=1)
PY
  echo "CONFIRMED -> $D"
else
  echo "NOT CONFIRMED"; tail -5 $S/demo_base.log; tail -5 $S/demo_mut.log
  exit 1
fi
