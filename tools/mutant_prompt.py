#!/usr/bin/env python3
"""Print the prompt given to a fresh sub-agent that seeds a property-breaking change.
Usage: mutant_prompt.py C04 [variant-hint]"""
import json, sys
pid = sys.argv[1]
hint = sys.argv[2] if len(sys.argv) > 2 else ''
for l in open('/verif/properties.jsonl'):
    p = json.loads(l)
    if p['id'] == pid:
        break
wt = f'/tmp/wt/{pid}{hint and "-" + hint}'
print(f"""You are helping test a verification effort for the Python library FlowCal (flow cytometry: FCS reader, transforms, gates, statistics, bead calibration, Excel UI).

A private scratch git worktree of the repository is at {wt} (detached HEAD). Work ONLY inside that directory (and /tmp/demo_{pid}{hint} for scratch files). Never touch /repo or /verif, never read anything under /verif, never commit, never push, no network.

Here is a semantic property that FlowCal is supposed to satisfy:

TITLE: {p['title']}
STATEMENT: {p['statement']}
QUANTIFIED OVER: {p['quantifier']['text']}
RELEVANT FILES: {', '.join(p['anchors']['files'])}

YOUR TASK: make ONE realistic source change to the library code in the worktree (under {wt}/FlowCal/, not the tests) that BREAKS this property, while
  (a) the package still imports, and
  (b) the existing test suite still passes exactly as before. Run it with:
        cd {wt} && /venv/bin/python -m pytest -q -p no:cacheprovider --timeout=900 -x -q 2>&1 | tail -5
      On the unmodified tree 409 tests pass and 11 fail (test_read_table_xls, 5 TestFCSAttributesChannelLabels tests, 5 TestMode tests - their reference values are written for older library versions); with your change exactly the same tests must still pass (do not use -x when comparing; compare the set of failures before and after, e.g. with `-q -rf | grep FAILED | sort`).
  (c) the change should look like a plausible bug a maintainer could introduce (a refactor slip, an off-by-one, a wrong variable, an optimisation, a dropped copy, a changed default, a reordered step) - NOT sabotage such as `if x == 12345`, random behaviour, or deleting functionality wholesale.
  (d) IMPORTANT: the breakage should need something specific to manifest - a particular multi-step sequence of operations, an unusual-but-legal input, a specific configuration/corner of the input space, or two cooperating sites that each look fine alone - NOT something ordinary use would expose at once. Prefer subtle over blatant.{(' Variant hint: ' + hint) if hint else ''}

Note: python to use is /venv/bin/python (has numpy, scipy, pandas, matplotlib, sklearn, skimage, openpyxl). Use PYTHONPATH={wt} so that the worktree's FlowCal is imported (check FlowCal.__file__). Use MPLBACKEND=Agg.
Note: the unmodified tree itself may already violate parts of this property in places (the library is old and the installed numpy/scipy are new). Your change must break something that WORKS on the unmodified tree.

DELIVERABLES, all inside the worktree directory {wt}:
  1. {wt}/MUTANT.diff  - output of `git -C {wt} diff -- FlowCal` (the source change only).
  2. {wt}/demo.py      - a small standalone program (run as `PYTHONPATH={wt} MPLBACKEND=Agg /venv/bin/python {wt}/demo.py`) that exits 0 and prints PASS on the UNMODIFIED library, and exits 1 and prints FAIL (with a short explanation) on the MODIFIED library. It must only rely on the public behaviour described in the property, generate its own input data (e.g. write small FCS files itself to a temp dir; test data files exist under {wt}/test and {wt}/examples if useful), and be deterministic.
  3. {wt}/MUTANT.md    - a few lines: what you changed, why the tests miss it, and exactly what is needed for it to manifest.
Verify (a)-(d) yourself: run demo.py with the change (must FAIL); save the change with `git -C {wt} diff -- FlowCal > {wt}/MUTANT.diff`, undo it with `git -C {wt} apply -R {wt}/MUTANT.diff` and run demo.py (must PASS), then re-apply it with `git -C {wt} apply {wt}/MUTANT.diff` (do NOT use `git stash`: the stash is shared by all worktrees of the repository and other agents are working in sibling worktrees); run the full test suite with the change and confirm the same 11 failures and 409 passes. Leave the worktree WITH the change applied (uncommitted).

In your final answer, report: the diff, the demo result before/after, and the test-suite pass/fail counts with the change.""")
