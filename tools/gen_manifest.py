#!/usr/bin/env python3
"""Regenerate /verif/MANIFEST.json from the table below (one source of truth)."""
import json
import os

V = os.path.dirname(os.path.dirname(os.path.abspath(__file__)))

# id -> (spec modules, technique, level text, level note, design ref)
CLAIMED = {
    'C14': ('FCSText, Gen_C14, MC_FCSText, Trace_C14',
            'TLA+ left-to-right tokenizer spec; TLC enumerates all strings <= L (GEN) replayed into '
            'read_fcs_text_segment; recorded reads of hypothesis dictionaries / whole files validated by a trace spec',
            'TLC checks round-trip theorems of the escaping rule on the spec, enumerates every string over '
            '{delimiter,a,b} up to L in three calling modes and the implementation is run on each one; richer '
            'dictionaries, delimiters and whole files (supplemental TEXT, ANALYSIS) are recorded and validated '
            'against the same spec. Exhaustive within L; sampling beyond.',
            'Trusted: TLC, the TLA+ value parser, the latin-1 rendering; the python writer is cross-checked '
            'because the trace spec decodes its bytes. TolerantEnding accepted as a set (property is permissive).',
            'DESIGN.md 3.1, 4 C14'),
}

CLAIMED['C04'] = ('NumpyIndex, Gen_C04, Session',
    'TLA+ model of NumPy indexing + FCSData metadata expectation; TLC enumerates the whole key grammar at depth 1, all '
    'chains of 2 (exhaustive) and sampled chains of 3; each state replayed as read and as assignment into real FCSData; '
    'the spec itself is validated against plain ndarray on every case',
    'TLC checks MetaAligned/view invariants on the indexing model and enumerates ~10^5 keys and key chains; the '
    'implementation is executed on every enumerated case (values, seven metadata attributes via public accessors, '
    'scalar-ness, write-through). Exhaustive inside the menus, sampling for chains of three.',
    'Trusted: TLC, value parser, plain ndarray as reference for the spec (disagreement = exit 2), origin-coded sample. '
    'Other forms (numpy ints/arrays, boolean column lists) accept refusal or aligned result. Known finding '
    'C04/rowvector-subselect is suppressed only for the exact known behaviour.',
    'DESIGN.md 3.2, 4 C04')

CLAIMED['C01'] = ('FCSAscii, FCSText, FCSBytes, FCSReader, Gen_C01, MC_FCSReader, Trace_C01',
    'byte-level TLA+ writer and reader of FCS files; TLC proves Read(Write(x)) = Masked(x) on every enumerated layout and '
    'dumps (bytes, outcome); the spec-written bytes are loaded by the real FCSFile/FCSData; recorded loads of '
    'hypothesis layouts are re-read by the trace spec',
    'TLC checks the reader state machine (refinement to the composed function, forward progress, no data before the size '
    'and map checks) and the round-trip theorem over every layout of the slices; the implementation loads every '
    'spec-written file and must return the same limbs, shape and keywords or refuse. Exhaustive within the slices, '
    'hypothesis sampling for 3 parameters / arbitrary padding / real 64-bit values.',
    'Trusted: TLC, value parser, projection of numpy values to byte limbs. Ranges above 2^width are outside the property. '
    'Refusal class (NotImplementedError vs other) is logged, not required.',
    'DESIGN.md 3.1, 4 C01')
CLAIMED['C16'] = ('FCSBytes, FCSReader, Gen_C01 (fault slices), MC_FCSReader',
    'environment action Damage in the TLA+ model enumerates truncation at every byte, the empty file and 40 single-field '
    'corruptions per file; TLC checks LoudFailure on the spec reader and dumps (damaged bytes, outcome); each damaged '
    'file is loaded by the real reader',
    'Exhaustive per file over the fault model: TLC shows that the specification reader refuses or reads the intact '
    'content for every truncation, empty file and TEXT-offset corruption (geometry-field corruptions that leave a '
    'self-consistent file are exempt and documented) and the real reader must behave exactly as the spec reader on all of them.',
    'Trusted: TLC, value parser, fault model as written in Gen_C01. Files keep the segment order HEADER, TEXT, sTEXT, DATA.',
    'DESIGN.md 3.1, 4 C16')

CLAIMED['C17'] = ('FCSMeta, Gen_C17',
    'TLA+ decision table over structured keyword states; environment actions enumerate the keyword-presence lattice; '
    'TLC checks IllMeansAbsent/Precedence/StandardWins and dumps (scenario, expected attributes); each scenario is '
    'rendered to a file and loaded by the real FCSData',
    'Exhaustive over the product of keyword states (absent, every accepted format, ill-formed kinds) in two timing '
    'sub-products plus the detector/channel groups on channels 1,2,10,12 of a 12-channel file; every point is loaded and '
    'every derived attribute compared with the specification (rationals vs floats to 1e-12).',
    'Trusted: TLC, value parser, rendering tables (abstract state -> keyword text) in conf_C17.py. Python spellings '
    'outside the rendering tables are not claimed.',
    'DESIGN.md 3.1, 4 C17')

CLAIMED['C12'] = ('Stats, Gen_C12, Session',
    'exact-rational TLA+ definitions of the statistics; environment actions enumerate event matrices x container x '
    'channel form; TLC checks definitional invariants and dumps expected values; every scenario executed through '
    'FlowCal.stats for all ten statistics',
    'Exhaustive over all pairs of columns of 1..3 events on two alphabets (small, and 16-bit-wide values that expose '
    'integer overflow), five containers and nine channel forms; mean/median/mode/IQR/RCV and std^2, cv^2, gmean^N are '
    'compared with exact rationals, the remaining identities (cv=std/mean, rcv=iqr/median, gcv=f(gstd)) on the '
    'returned values; never-raises and scalar/vector shape rule included.',
    'Trusted: TLC, value parser, float tolerance (1e-12; 2e-6 for float32 samples). gstd against its definition is a '
    'logged observation (float reference computed by the harness).',
    'DESIGN.md 3.2, 4 C12')

CLAIMED['C08'] = ('Gates, Gen_C08, Session',
    'TLA+ predicates of start_end / high_low / axis-aligned ellipse over integer events; environment actions enumerate '
    'events, containers, channel forms and parameters; every scenario executed with full and short output',
    'Exhaustive over the enumerated parameter grids: the mask must equal the specified predicate (or the call must be '
    'refused), gated data must equal input[mask] with unchanged metadata, and the short form the full form. Ellipse at a '
    'general angle / in log space is a logged observation against an independent extended-precision evaluation.',
    'Trusted: TLC, value parser; float exactness of the ellipse form for power-of-two semi-axes; plain numpy masking of '
    'the underlying buffer as the meaning of input[mask].',
    'DESIGN.md 3.2, 4 C08')

CLAIMED['C03'] = ('Units, Gen_C03, Session',
    'TLA+ decision table of to_rfi argument normalisation + per-channel law selection yielding symbolic laws per column; '
    'environment actions enumerate container x channel form x shapes of the three settings; each scenario executed and the '
    'law on each column identified by evaluating the documented formula',
    'Exhaustive over ~10^5 argument-shape scenarios on five containers (int/double samples with and without gain, int and '
    'float arrays): refusal vs conversion, the law per column, bit-identical untouched columns and metadata, converted '
    'ranges, input not mutated, and bitwise equality of batch / every sequential order / every spelling.',
    'Trusted: TLC, value parser; floating-point identification of a law (rtol 2e-14) - the spec decides WHICH law on WHICH '
    'column. Quick tier runs all accepted calls and a quarter of the refused ones.',
    'DESIGN.md 3.2, 4 C03')

CLAIMED['C06'] = ('Units (ToMEF), Gen_C06, Session',
    'TLA+ pairing table of to_mef (curve i belongs to sc_channels[i]; coverage and count checks); environment actions '
    'enumerate listings, spellings, curve counts and requests; each scenario executed with distinct affine curves',
    'Exhaustive over every ordering/spelling of sc_channels, curve counts n-1,n,n+1 and every request (none, scalar, all '
    'ordered subsets, uncovered channels) on a sample, a plain array and the partial callable of get_transform_fxn: '
    'refusal vs conversion, the curve on each column (bitwise), untouched columns, ranges, metadata, input not mutated.',
    'Trusted: TLC, value parser. Negative positions are not enumerated (other form).',
    'DESIGN.md 3.2, 4 C06')
CLAIMED['C07'] = ('RangeLaw, Units, Trace_C07, Session',
    'mechanism model RangeLaw (events and limits through the same increasing map; skew parameter for the last-place '
    'deviation) checked by TLC; recorded conversions of hypothesis-drawn amplifier/curve parameters validated by a trace '
    'spec that requires range term = unit term and the logged bitwise-limit and mask-equality observations',
    'TLC proves RangeFollows / GateCommutes on the model and shows the counterexample for a last-place skew; the trace '
    'direction sweeps (a0,a1,r,gain) and (m,b) on integer samples with events at 0,1,R-2,R-1 in every channel and checks, '
    'per draw, bitwise equality of each converted limit with the value of the event that sat there and equality of the '
    'default high_low masks before/after conversion.',
    'Trusted: TLC, value parser; the bitwise facts are direct equality observations on library outputs (no numeric oracle). '
    'Sampling (400 draws quick, 20000 thorough), not exhaustive.',
    'DESIGN.md 3.2, 4 C07')

CLAIMED['C19'] = ('HistBins, LogicleParams, Gen_C19, Session',
    'TLA+ edge grid as exact fractions of the span in the scale coordinate + argument broadcasting table; TLC checks '
    'increasing/covering/centred theorems; every scenario executed through FCSData.hist_bins on raw, RFI and MEF-like samples',
    'Exhaustive over the enumerated call shapes (channel forms, nbins default/explicit/lists, scale linear/log/logicle/'
    'lists/unknown, logicle overrides) on three sample states: count, finiteness, monotonicity, coverage, exact grid '
    '(linear directly, log via log10, logicle via the library display transform built per channel), centring for the '
    'default bin count, multi-channel = per-channel (bitwise), unknown scale refused, sample range unchanged.',
    'Trusted: TLC, value parser; the logicle display transform itself (C18, not claimed); coordinate tolerance 1e-11 of the span.',
    'DESIGN.md 3.3, 4 C19')

CLAIMED['C13'] = ('Heap, Session',
    'TLA+ object store with Python reference semantics (heap cells for range lists / dictionaries, buffers, accessors that '
    'hand out references); TLC checks NoSharedMeta, BufSharing, Independent, ReadOnlyPreserves on all histories; histories '
    'replayed on real objects and the real sharing graph compared; the ReadOnly/Derive actions are instantiated by a '
    'registry of call recipes for every public callable (inspect-enumerated)',
    'Model checking of the store model (all histories of <= 3 operations on <= 4 objects) with every history replayed into '
    'real FCSData objects; plus 170+ call recipes covering all 51 public callables with before/after fingerprints of every '
    'argument and caller-owned container, sharing analysis of results, and query-order independence on pairs of queries.',
    'Trusted: TLC, value parser, id()/np.shares_memory observations, fingerprints. Recipes are representative argument '
    'shapes; a callable without a recipe is reported in evidence (none at present). Recipes that raise are listed, not judged.',
    'DESIGN.md 3.2, 4 C13')
CLAIMED['C20'] = ('Heap, Session',
    'same store model; DupBornEqual + NoSharedMeta + BufSharing + Independent checked by TLC; every history replayed on '
    'integer and float files with all optional keywords, every duplicate compared attribute by attribute at birth, all '
    'pickle protocols; file-level equality cases',
    'Exhaustive over histories of <= 3 operations from 13 derivations, 3 writes through accessors and read-only calls; the '
    'real store (container identities, buffer sharing, which writes each object sees) must equal the specification store '
    'after every history and every copy/deepcopy/view/pickle must equal its source in values, dtype, shape and every attribute.',
    'Trusted: TLC, value parser, id()/np.shares_memory, fingerprint of attributes via public accessors.',
    'DESIGN.md 3.2, 4 C20')

CLAIMED['C05'] = ('DensityGate, MC_DensityGate, Gen_C05, Trace_C05',
    'declarative TLA+ predicate of a valid density gate over bin counts and density ranks + the prefix algorithm; TLC '
    'proves algorithm => predicate, monotonicity, all-at-1, none-outside, whole-bins on all small instances; integer '
    'scenarios (replay of every bin mask, f=0/1, errors) generated by TLC and executed; recorded real gates validated by a '
    'trace spec with harness-supplied edge codes and density ranks',
    'Model checking of the gate specification on all 2x2 instances; exhaustive replay of every bin mask and the f=0/f=1/'
    'error cases on small code grids; recorded gates on tied, continuous, clustered and sample-derived binnings are '
    'accepted only if the returned bin mask is a valid gate for the ranks (lower bound, density-closed, minimal, '
    'existential over exact ties), the event mask is the events of the kept bins, and replay / permutation / larger f agree.',
    'Trusted: TLC, value parser; density ranks computed by the harness with the documented gaussian_filter call (input, not '
    'oracle); edge codes from comparisons with the returned edges; n or n+1 accepted when f*n is integral.',
    'DESIGN.md 3.3, 4 C05')

CLAIMED['C02'] = ('Calibration, Trace_C02',
    'TLA+ step machine of get_transform_fxn bookkeeping (cluster, order, select, fit, assemble) checked by TLC for pairing '
    'independence; recorded end-to-end calibrations of synthetic beads validated by a trace spec against the scenario '
    '(partition, brightness order, selection, value assignment, lengths, reproducibility, order independence); numeric '
    'accuracy rides along as logged observations',
    'TLC checks OwnValue / EqualLengths / ExcludedStayOut / CurvePerChannel / RefusedOnlyWhenTooFew over all flag assignments '
    '(K=4, 2 channels); the trace direction runs the real workflow on generated bead files (6..8 populations, 1..3 channels, '
    'unknown values, saturated extremes, blank, clustering-channel choices, median/mean, permuted order, repeated seed).',
    'Trusted: TLC, value parser; scenario generator keeps non-saturated populations 4 SD inside the selection thresholds '
    '(discards others); numeric observations are measured by the harness (true medians, reference fit, 10% bound). Known '
    'finding: grouping failures when the equal-chunk seeding straddles populations (unequal sizes).',
    'DESIGN.md 3.3, 4 C02')

CLAIMED['C10'] = ('ExcelUI, MC_ExcelUI',
    'TLA+ row machine of process_samples_table that emits the library-call program of each row (`calls`), StatColumns and '
    'HistScale; TLC enumerates tables of healthy row kinds; the harness executes each program by hand with the library '
    'functions and compares bitwise with what the workflow returns, then the statistics and histogram sheets',
    'For every generated healthy row (14 unit combinations, int/float, two instruments with different channel names, four '
    'spellings per unit, two gate fractions, 1..2-row tables): the returned sample equals the hand composition bitwise '
    '(values, ranges, metadata); every statistics column equals the library statistic of the gated sample (geometric on '
    'positive events, with note); counts, acquisition time; histogram counts = np.histogram over every other edge of hist_bins.',
    'Trusted: TLC, value parser, the by-hand interpreter (only public library calls named by the spec). Sampling of 2-row '
    'tables in the quick tier.',
    'DESIGN.md 3.4, 4 C10')
CLAIMED['C11'] = ('ExcelUI, MC_ExcelUI',
    'TLA+ batch loop with per-row try block, loop-carried locals and the row-local function RowOutcome; TLC checks '
    'NeverAborted, Isolation, TableOrder, EmptyTable, NoStaleRead; every table of <= 2 rows over 33 row kinds (and sampled '
    'longer tables with reorderings) is rendered and processed by the real workflow',
    'Exhaustive over all assignments of {healthy kinds, each documented fault, two-fault rows} to tables of 0..2 rows; '
    'sampled tables of 3..5 rows and their reversals; per row the outcome class, ERROR note and empty statistics, key '
    'order, and bitwise equality of every healthy row with its single-row run; bead tables over all bead-row faults.',
    'Trusted: TLC, value parser, message patterns that classify row errors; either of two documented messages accepted '
    'where both checks legitimately apply.',
    'DESIGN.md 3.4, 4 C11')
CLAIMED['C15'] = ('Workbook, ExcelUI, RunEnv',
    'TLA+ round-trip model of write_workbook/read_table (rows without identifier dropped, duplicates among identified rows '
    'refused) enumerated exhaustively by TLC and executed; output-workbook schema (sheet order, appended columns) listed '
    'in the spec and checked on generated workbooks and the shipped example run through excel_ui.run',
    'Exhaustive round trip for all tables of <= 3 (4 thorough) rows; run() on generated well-formed workbooks with plots / '
    'histogram sheet / output-path options incl. bead rows with 1..3 clustering channels, and on examples/experiment.xlsx: '
    'no exception, sheets in order, input rows and columns preserved, documented columns appended in order, every documented '
    'figure file present.',
    'Trusted: TLC, value parser, pandas/openpyxl for writing inputs and reading outputs. run() cases are a sample, not exhaustive.',
    'DESIGN.md 3.4, 4 C15')

NOT_APPLICABLE = {
    'C09': 'continuum numerics only (L-BFGS-B recovery of real parameters, real-analytic identities of closures): no '
           'state, history or case analysis for a TLA+ specification to enumerate; discrete fragment (Fit refuses <3 '
           'populations / unequal lengths) is covered inside C02. See DESIGN.md section 6.',
    'C18': 'continuum numerics only (biexponential root finding, strict monotonicity and 1e-4*M inverse accuracy over real '
           '(T,M,W)); TLC has no reals; the parameter-source decision table is specified in LogicleParams and bound via C19. '
           'See DESIGN.md section 6.',
}

SESSION_TEXT = (' In addition spec/Session.tla (whole analysis sessions: column and event selections, RFI, MEF through the '
                'function made by a real calibration, gates, copies) is model-checked; every history of <= 2 steps and simulated '
                'longer ones are replayed and the real sample is projected and compared with the specification state after '
                'every step; in the other direction randomly driven sessions of the real library (up to 14 steps) are recorded and '
                'judged step by step by spec/trace/Trace_Session.tla; this check reports the mismatches attributed to its property.')
RUNENV_TEXT = (' spec/RunEnv.tla models the file system around run() (current directory, look-alike plot folders, repeated '
               'runs); every history ending in a run is replayed on a real workbook.')
PENDING_REASON = 'check not built yet in this round (planned, see DESIGN.md section 9); not claimed until its driver exists'


def main():
    props = [json.loads(l) for l in open(os.path.join(V, 'properties.jsonl'))]
    checks = []
    na = []
    for p in props:
        pid = p['id']
        if pid in CLAIMED and os.path.exists(os.path.join(V, 'harness', 'conf_%s.py' % pid)):
            mods, tech, text, note, ref = CLAIMED[pid]
            if 'Session' in mods:
                text += SESSION_TEXT
            if 'RunEnv' in mods:
                text += RUNENV_TEXT
            checks.append({
                'property_id': pid,
                'quick_cmd': './check %s --tier quick' % pid,
                'thorough_cmd': './check %s --tier thorough' % pid,
                'evidence_file': 'evidence/%s.json' % pid,
                'replay_cmd_template': './check %s --replay {path}' % pid,
                'engine': 'tlc',
                'level_claimed': {'category': 'model_checking', 'text': text, 'design_ref': ref},
                'level_note': note,
                'technique': 'explicit TLA+ spec (%s) + TLC; %s' % (mods, tech),
            })
        else:
            na.append({'property_id': pid, 'reason': NOT_APPLICABLE.get(pid, PENDING_REASON)})
    m = {
        'version': 1,
        'setup_cmd': 'cd /verif && ./tools/setup.sh',
        'hooks': {
            'guard': 'FLOWCAL_VERIF',
            'enable': 'no source hooks: all observations are public calls; harness-side wrappers record call '
                      'sequences. FLOWCAL_VERIF=1 is exported by ./check but nothing in /repo reads it.',
            'baseline_off_cmd': 'cd /repo && env -u FLOWCAL_VERIF /venv/bin/python -m pytest -ra -q -p no:cacheprovider '
                                '--timeout=900 --continue-on-collection-errors',
            'source_commits': [],
            'add_only': True,
        },
        'engines': [{'name': 'tlc', 'path': '/usr/local/bin/tlc',
                     'serves_properties': [c['property_id'] for c in checks],
                     'kind_free_text': 'TLC 1.8 explicit-state model checker on the TLA+ modules under spec/; '
                                       'conformance drivers in harness/ (spec->code replay of dumped/simulated states, '
                                       'code->spec trace validation)'}],
        'checks': checks,
        'not_applicable': na,
        'notes': 'exit 0 held / 1 VIOLATION / 2 machinery failure. Seeded changes and which check catches them: '
                 'DESIGN.md section 10 and seeded/*/meta.json. known_findings.json lists open findings and fixed ones.',
    }
    with open(os.path.join(V, 'MANIFEST.json'), 'w') as f:
        json.dump(m, f, indent=1)
    print('claimed:', [c['property_id'] for c in checks])


if __name__ == '__main__':
    main()
