#!/bin/bash
# run_mutant_wt.sh <seeded-name> <check-id> [tier]
# Like run_mutant.sh, but the seeded patch is applied to a scratch git worktree of /repo (under /tmp, removed afterwards)
# and the check imports the library from there (FLOWCAL_REPO); /repo's working tree is not touched, so this can run
# while other checks are using /repo.
name="$1"; id="$2"; tier="${3:-quick}"
cd /verif
S=/tmp/mutwt_${name}_$$
git -C /repo worktree add -q --detach $S HEAD || exit 2
trap 'git -C /repo worktree remove --force '$S' 2>/dev/null; rm -rf '$S'; git -C /repo worktree prune' EXIT
git -C $S apply /verif/seeded/$name/patch.diff || { echo "apply failed: $name"; exit 2; }
mkdir -p /tmp/mutev_$$; 
# evidence of the unchanged tree is kept: the run writes its evidence file under a scratch copy of /verif/evidence
cp evidence/$id.json /tmp/mutev_$$/ 2>/dev/null
FLOWCAL_REPO=$S ./check $id --tier $tier > /tmp/mut_${name}_${id}.log 2>&1; rc=$?
cp /tmp/mutev_$$/$id.json evidence/$id.json 2>/dev/null; rm -rf /tmp/mutev_$$
echo "mutant=$name check=$id tier=$tier rc=$rc  $(grep -c ^VIOLATION /tmp/mut_${name}_${id}.log) violation lines"
grep -E "^VIOLATION|class=" /tmp/mut_${name}_${id}.log | head -4
tail -1 /tmp/mut_${name}_${id}.log
