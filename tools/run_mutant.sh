#!/bin/bash
# run_mutant.sh <seeded-name> <check-id> [tier]   - apply seeded patch to /repo, run the check, undo.
name="$1"; id="$2"; tier="${3:-quick}"
cd /verif
git -C /repo diff --quiet || { echo "/repo not clean"; exit 2; }
git -C /repo apply /verif/seeded/$name/patch.diff || { echo "apply failed"; exit 2; }
cp evidence/$id.json /tmp/evidence_$id.bak 2>/dev/null
trap 'git -C /repo checkout -- . ; cp /tmp/evidence_'$id'.bak /verif/evidence/'$id'.json 2>/dev/null' EXIT   # the evidence file describes the unchanged tree
./check $id --tier $tier > /tmp/mut_${name}_${id}.log 2>&1; rc=$?
echo "mutant=$name check=$id tier=$tier rc=$rc  $(grep -c ^VIOLATION /tmp/mut_${name}_${id}.log) violation lines"
grep -E "^VIOLATION|class=" /tmp/mut_${name}_${id}.log | head -4
tail -1 /tmp/mut_${name}_${id}.log
